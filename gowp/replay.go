package main

// Replay of solver counterexamples on the real code: an in-package Go test is generated from the model and from
// the contract clauses (compiled to Go from the same AST the proof used) and run with `go test -overlay`,
// so nothing is written into /repo.

import (
	"bytes"
	"context"
	"encoding/json"
	"fmt"
	"go/ast"
	"go/printer"
	"go/token"
	"go/types"
	"os"
	"os/exec"
	"path/filepath"
	"regexp"
	"strconv"
	"strings"
	"time"
)

type replayResult struct {
	Summary string
	GoTest  string
	Output  string
	Failed  bool
}

func runOverlayTest(src, testName string) (string, bool) {
	dir, err := os.MkdirTemp("/var/tmp", "gowp-replay-")
	if err != nil {
		return "cannot create temp dir: " + err.Error(), false
	}
	defer os.RemoveAll(dir)
	tf := filepath.Join(dir, "zz_gowp_replay_test.go")
	os.WriteFile(tf, []byte(src), 0o644)
	ov := map[string]any{"Replace": map[string]string{filepath.Join(repoDir, "zz_gowp_replay_test.go"): tf}}
	ovb, _ := json.Marshal(ov)
	ovf := filepath.Join(dir, "ov.json")
	os.WriteFile(ovf, ovb, 0o644)
	ctx, cancel := context.WithTimeout(context.Background(), 120*time.Second)
	defer cancel()
	cmd := exec.CommandContext(ctx, "go", "test", "-overlay", ovf, "-vet=off", "-count=1", "-timeout", "60s", "-run", "^"+testName+"$", ".")
	cmd.Dir = repoDir
	cmd.Env = append(os.Environ(), "GOFLAGS=-mod=mod", "GOPROXY=off", "GOSUMDB=off", "GOTOOLCHAIN=local", "GOCACHE="+goCacheDir())
	var out bytes.Buffer
	cmd.Stdout = &out
	cmd.Stderr = &out
	err = cmd.Run()
	s := out.String()
	if len(s) > 6000 {
		s = s[:6000] + "\n...(truncated)"
	}
	failed := err != nil && strings.Contains(s, "GOWP-VIOLATED")
	return s, failed
}

func goCacheDir() string {
	if d := os.Getenv("GOCACHE"); d != "" {
		return d
	}
	home, _ := os.UserHomeDir()
	return filepath.Join(home, ".cache", "go-build")
}

// ---------------------------------------------------------------------------------------------
// clause -> Go

type goGen struct {
	x      *Exec
	rename map[string]string
	failed string
}

func (g *goGen) expr(e ast.Expr) ast.Expr {
	switch n := e.(type) {
	case *ast.ParenExpr:
		return &ast.ParenExpr{X: g.expr(n.X)}
	case *ast.BasicLit:
		return n
	case *ast.Ident:
		if r, ok := g.rename[n.Name]; ok {
			return ast.NewIdent(r)
		}
		if _, isGhost := g.x.ghostSort(n.Name); isGhost {
			g.failed = "ghost " + n.Name
		}
		return n
	case *ast.SelectorExpr:
		return &ast.SelectorExpr{X: g.expr(n.X), Sel: n.Sel}
	case *ast.UnaryExpr:
		return &ast.UnaryExpr{Op: n.Op, X: g.expr(n.X)}
	case *ast.BinaryExpr:
		return &ast.BinaryExpr{X: g.expr(n.X), Op: n.Op, Y: g.expr(n.Y)}
	case *ast.IndexExpr:
		return &ast.IndexExpr{X: g.expr(n.X), Index: g.expr(n.Index)}
	case *ast.CallExpr:
		fname := exprStr(n.Fun)
		if d, ok := g.x.specs.Defines[fname]; ok && len(d.Params) == len(n.Args) {
			sub := &goGen{x: g.x, rename: map[string]string{}}
			// substitute by wrapping: evaluate args first
			args := make([]ast.Expr, len(n.Args))
			for i, a := range n.Args {
				args[i] = &ast.ParenExpr{X: g.expr(a)}
			}
			body := substIdents(d.Body, d.Params, args)
			r := sub.exprNoRename(g, body)
			return &ast.ParenExpr{X: r}
		}
		var args []ast.Expr
		for _, a := range n.Args {
			args = append(args, g.expr(a))
		}
		call := func(name string) ast.Expr { return &ast.CallExpr{Fun: ast.NewIdent(name), Args: args} }
		switch fname {
		case "implies":
			return &ast.ParenExpr{X: &ast.BinaryExpr{X: &ast.UnaryExpr{Op: token.NOT, X: &ast.ParenExpr{X: args[0]}}, Op: token.LOR, Y: &ast.ParenExpr{X: args[1]}}}
		case "iff":
			return &ast.ParenExpr{X: &ast.BinaryExpr{X: &ast.ParenExpr{X: args[0]}, Op: token.EQL, Y: &ast.ParenExpr{X: args[1]}}}
		case "ite":
			return call("gowpIte")
		case "old":
			return args[0]
		case "mask":
			return call("gowpMask")
		case "len64":
			return call("gowpLen64")
		case "f64bits":
			return call("math.Float64bits")
		case "f32bits":
			return call("math.Float32bits")
		case "f64frombits":
			return call("math.Float64frombits")
		case "f32frombits":
			return call("math.Float32frombits")
		case "isNaN":
			return call("gowpIsNaN")
		case "isInf":
			return call("gowpIsInf")
		case "isNeg":
			return call("math.Signbit")
		case "forall", "exists", "fresh", "has", "sel", "smt", "isInvalidData", "isStopTest", "strOf", "refOf", "asAny":
			g.failed = "spec function " + fname
			return n
		}
		if _, ok := convNames[fname]; ok {
			return &ast.CallExpr{Fun: n.Fun, Args: args}
		}
		if fname == "len" || fname == "cap" {
			return &ast.CallExpr{Fun: n.Fun, Args: args}
		}
		g.failed = "function " + fname
		return n
	}
	g.failed = fmt.Sprintf("expression %T", e)
	return e
}

func (g *goGen) exprNoRename(parent *goGen, e ast.Expr) ast.Expr {
	// arguments were already translated; translate the body's own calls with parent's ghost checks but no renames
	g.rename = map[string]string{}
	r := g.expr(e)
	if g.failed != "" {
		parent.failed = g.failed
	}
	return r
}

func substIdents(e ast.Expr, params []string, args []ast.Expr) ast.Expr {
	m := map[string]ast.Expr{}
	for i, p := range params {
		m[p] = &markedExpr{args[i]}
	}
	return substWalk(e, m)
}

// markedExpr wraps an already translated argument so that it is not translated again.
type markedExpr struct{ ast.Expr }

func substWalk(e ast.Expr, m map[string]ast.Expr) ast.Expr {
	switch n := e.(type) {
	case *ast.Ident:
		if r, ok := m[n.Name]; ok {
			return r.(*markedExpr).Expr
		}
		return n
	case *ast.ParenExpr:
		return &ast.ParenExpr{X: substWalk(n.X, m)}
	case *ast.UnaryExpr:
		return &ast.UnaryExpr{Op: n.Op, X: substWalk(n.X, m)}
	case *ast.BinaryExpr:
		return &ast.BinaryExpr{X: substWalk(n.X, m), Op: n.Op, Y: substWalk(n.Y, m)}
	case *ast.CallExpr:
		var args []ast.Expr
		for _, a := range n.Args {
			args = append(args, substWalk(a, m))
		}
		return &ast.CallExpr{Fun: n.Fun, Args: args}
	case *ast.SelectorExpr:
		return &ast.SelectorExpr{X: substWalk(n.X, m), Sel: n.Sel}
	case *ast.IndexExpr:
		return &ast.IndexExpr{X: substWalk(n.X, m), Index: substWalk(n.Index, m)}
	}
	return e
}

func printExpr(e ast.Expr) string {
	var b bytes.Buffer
	printer.Fprint(&b, token.NewFileSet(), e)
	return b.String()
}

// ---------------------------------------------------------------------------------------------

var bvLitRe = regexp.MustCompile(`^#(x[0-9a-fA-F]+|b[01]+)$`)

func modelUint(v string) (uint64, bool) {
	v = strings.TrimSpace(v)
	if strings.HasPrefix(v, "#x") {
		u, err := strconv.ParseUint(v[2:], 16, 64)
		return u, err == nil
	}
	if strings.HasPrefix(v, "#b") {
		u, err := strconv.ParseUint(v[2:], 2, 64)
		return u, err == nil
	}
	if strings.HasPrefix(v, "(_ bv") {
		var u uint64
		var w int
		if _, err := fmt.Sscanf(v, "(_ bv%d %d)", &u, &w); err == nil {
			return u, true
		}
	}
	return 0, false
}

// modelFloat returns a Go expression for an SMT FP literal.
func modelFloat(v string, bits int) (string, bool) {
	v = strings.TrimSpace(v)
	eb, sb := 11, 52
	if bits == 32 {
		eb, sb = 8, 23
	}
	mk := func(u uint64) string {
		if bits == 32 {
			return fmt.Sprintf("math.Float32frombits(0x%x)", u)
		}
		return fmt.Sprintf("math.Float64frombits(0x%x)", u)
	}
	switch {
	case strings.HasPrefix(v, "(fp "):
		f := strings.Fields(strings.Trim(v, "()"))
		if len(f) != 4 {
			return "", false
		}
		s, ok1 := modelUint(f[1])
		e, ok2 := modelUint(f[2])
		m, ok3 := modelUint(f[3])
		if !ok1 || !ok2 || !ok3 {
			return "", false
		}
		return mk(s<<uint(eb+sb) | e<<uint(sb) | m), true
	case strings.HasPrefix(v, "(_ +zero"):
		return mk(0), true
	case strings.HasPrefix(v, "(_ -zero"):
		return mk(1 << uint(eb+sb)), true
	case strings.HasPrefix(v, "(_ +oo"):
		return mk((1<<uint(eb) - 1) << uint(sb)), true
	case strings.HasPrefix(v, "(_ -oo"):
		return mk(1<<uint(eb+sb) | (1<<uint(eb)-1)<<uint(sb)), true
	case strings.HasPrefix(v, "(_ NaN"):
		return mk((1<<uint(eb)-1)<<uint(sb) | 1), true
	}
	return "", false
}

func (x *Exec) tryReplay(o *Obligation, model map[string]string) replayResult {
	fn := x.lookupFunc(o.Func)
	c := x.specs.Contracts[o.Func]
	if fn == nil || c == nil {
		return replayResult{Summary: "replay not available (no function bound to " + o.Func + "); no failing input found"}
	}
	sig := fn.Signature
	if fn.Signature.Recv() != nil || fn.TypeParams().Len() > 0 {
		return replayResult{Summary: "replay harness handles plain functions over scalars and a bit stream only; " + o.Func + " is a method or generic; no failing input found"}
	}
	var b strings.Builder
	b.WriteString("package rapid\n\nimport (\n\t\"fmt\"\n\t\"math\"\n\t\"math/bits\"\n\t\"testing\"\n)\n\n")
	b.WriteString("var _ = fmt.Sprint\nvar _ = math.MaxInt\nvar _ = bits.Len64\n\n")
	b.WriteString("func gowpIte[T any](c bool, a, b T) T {\n\tif c {\n\t\treturn a\n\t}\n\treturn b\n}\n")
	b.WriteString("func gowpMask[I interface{ ~int | ~uint | ~uint64 | ~int64 }](n I) uint64 {\n\tif uint64(n) >= 64 {\n\t\treturn math.MaxUint64\n\t}\n\treturn uint64(1)<<uint64(n) - 1\n}\n")
	b.WriteString("func gowpLen64(x uint64) int { return bits.Len64(x) }\n")
	b.WriteString("func gowpIsNaN[F interface{ ~float32 | ~float64 }](f F) bool { return f != f }\n")
	b.WriteString("func gowpIsInf[F interface{ ~float32 | ~float64 }](f F) bool { return math.IsInf(float64(f), 0) }\n\n")
	b.WriteString("func TestGowpReplay(t *testing.T) {\n")
	fmt.Fprintf(&b, "\t// obligation %s\n\t// %s\n", o.Name, o.Desc)
	hasStream := false
	var argNames []string
	inByName := map[string]inputSym{}
	for _, in := range o.Inputs {
		inByName[in.Name] = in
	}
	for i := 0; i < sig.Params().Len(); i++ {
		p := sig.Params().At(i)
		name := p.Name()
		if name == "" || name == "_" {
			name = fmt.Sprintf("arg%d", i)
		}
		argNames = append(argNames, name)
		pt := p.Type()
		if named, ok := pt.(*types.Named); ok && named.Obj().Name() == "bitStream" {
			hasStream = true
			continue
		}
		in := inByName[p.Name()]
		mv, have := model[in.Sym]
		bt, isBasic := under(pt).(*types.Basic)
		if !isBasic {
			return replayResult{Summary: fmt.Sprintf("replay harness cannot build parameter %s of type %s; no failing input found", name, pt)}
		}
		tstr := types.TypeString(pt, func(*types.Package) string { return "" })
		switch {
		case bt.Info()&types.IsBoolean != 0:
			v := "false"
			if have && strings.TrimSpace(mv) == "true" {
				v = "true"
			}
			fmt.Fprintf(&b, "\tvar %s %s = %s\n", name, tstr, v)
		case bt.Info()&types.IsInteger != 0:
			u := uint64(0)
			if have {
				u, _ = modelUint(mv)
			}
			if bt.Info()&types.IsUnsigned != 0 {
				fmt.Fprintf(&b, "\tvar %s %s = %s(0x%x)\n", name, tstr, tstr, u)
			} else {
				w := x.intWidth(bt)
				sv := int64(u)
				if w < 64 {
					sv = int64(u<<uint(64-w)) >> uint(64-w)
				}
				fmt.Fprintf(&b, "\tvar %s %s = %s(%d)\n", name, tstr, tstr, sv)
			}
		case bt.Kind() == types.Float64 || bt.Kind() == types.Float32:
			bits := 64
			if bt.Kind() == types.Float32 {
				bits = 32
			}
			fe := "0"
			if have {
				if s, ok := modelFloat(mv, bits); ok {
					fe = s
				}
			}
			fmt.Fprintf(&b, "\tvar %s %s = %s(%s)\n", name, tstr, tstr, fe)
		default:
			return replayResult{Summary: fmt.Sprintf("replay harness cannot build parameter %s of type %s; no failing input found", name, pt)}
		}
	}
	// model draws
	var draws []string
	for _, d := range o.Draws {
		if v, ok := model[d]; ok {
			if u, ok := modelUint(v); ok {
				draws = append(draws, fmt.Sprintf("0x%x", u))
				continue
			}
		}
		draws = append(draws, "0")
	}
	fmt.Fprintf(&b, "\tmodelDraws := []uint64{%s}\n", strings.Join(draws, ", "))
	seed := 1
	if s := os.Getenv("VERIF_SEED"); s != "" {
		seed, _ = strconv.Atoi(s)
	}
	fmt.Fprintf(&b, "\trng := jsf64ctx{}\n\trng.init(%d)\n", seed)
	// result variables
	nres := sig.Results().Len()
	var rnames, rdecl []string
	rename := map[string]string{}
	for i := 0; i < nres; i++ {
		rn := fmt.Sprintf("gowpR%d", i)
		rnames = append(rnames, rn)
		rdecl = append(rdecl, fmt.Sprintf("\t\tvar %s %s\n", rn, types.TypeString(sig.Results().At(i).Type(), func(*types.Package) string { return "" })))
		rename[fmt.Sprintf("result%d", i)] = rn
		if nres == 1 {
			rename["result"] = rn
		}
		if n := sig.Results().At(i).Name(); n != "" && n != "_" {
			rename[n] = rn
		}
	}
	// checks
	var checks []string
	skipped := 0
	for _, en := range c.Ensures {
		for _, pe := range splitConj(en.Expr) {
			g := &goGen{x: x, rename: rename}
			ge := g.expr(pe)
			if g.failed != "" {
				skipped++
				continue
			}
			checks = append(checks, fmt.Sprintf("\t\tif !(%s) {\n\t\t\tt.Errorf(\"GOWP-VIOLATED postcondition %%s: inputs %%v stream %%#x results %%v\", %q, inputs, words, results())\n\t\t\treturn\n\t\t}\n", printExpr(ge), exprStr(pe)))
		}
	}
	allowInvalid := false
	for _, pc := range c.Panics {
		if pc.PKind == "invalidData" || pc.PKind == "any" {
			allowInvalid = true
		}
	}
	nStreams := 3000
	if !hasStream {
		nStreams = 1
	}
	fmt.Fprintf(&b, "\tinputs := fmt.Sprint(%s)\n", func() string {
		var parts []string
		for i, n := range argNames {
			if named, ok := sig.Params().At(i).Type().(*types.Named); ok && named.Obj().Name() == "bitStream" {
				continue
			}
			parts = append(parts, fmt.Sprintf("%q, %s", n+"=", n))
		}
		if len(parts) == 0 {
			return `""`
		}
		return strings.Join(parts, ", \" \", ")
	}())
	fmt.Fprintf(&b, "\tfor iter := 0; iter < %d && !t.Failed(); iter++ {\n", nStreams)
	b.WriteString("\t\twords := append([]uint64(nil), modelDraws...)\n")
	b.WriteString("\t\tfor k := 0; k < 64; k++ {\n\t\t\tswitch {\n\t\t\tcase iter == 0:\n\t\t\t\twords = append(words, 0)\n\t\t\tcase iter == 1:\n\t\t\t\twords = append(words, math.MaxUint64)\n\t\t\tcase iter%3 == 2:\n\t\t\t\twords = append(words, rng.rand()>>(rng.rand()%64))\n\t\t\tdefault:\n\t\t\t\twords = append(words, rng.rand())\n\t\t\t}\n\t\t}\n")
	b.WriteString("\t\tif iter >= 2 && iter%2 == 0 {\n\t\t\tfor k := range modelDraws {\n\t\t\t\twords[k] = rng.rand() >> (rng.rand() % 64)\n\t\t\t}\n\t\t}\n")
	for _, d := range rdecl {
		b.WriteString(d)
	}
	fmt.Fprintf(&b, "\t\tresults := func() string { return fmt.Sprint(%s) }\n", func() string {
		if len(rnames) == 0 {
			return `""`
		}
		return strings.Join(rnames, ", \" \", ")
	}())
	b.WriteString("\t\tvar panicked any\n\t\tfunc() {\n\t\t\tdefer func() { panicked = recover() }()\n")
	var callArgs []string
	for i, n := range argNames {
		if named, ok := sig.Params().At(i).Type().(*types.Named); ok && named.Obj().Name() == "bitStream" {
			callArgs = append(callArgs, "newBufBitStream(append([]uint64(nil), words...), false)")
		} else {
			callArgs = append(callArgs, n)
		}
	}
	lhs := ""
	if nres > 0 {
		lhs = strings.Join(rnames, ", ") + " = "
	}
	fmt.Fprintf(&b, "\t\t\t%s%s(%s)\n\t\t}()\n", lhs, fn.Name(), strings.Join(callArgs, ", "))
	b.WriteString("\t\tif panicked != nil {\n")
	if allowInvalid {
		b.WriteString("\t\t\tif _, ok := panicked.(invalidData); ok {\n\t\t\t\tcontinue\n\t\t\t}\n")
	}
	b.WriteString("\t\t\tt.Errorf(\"GOWP-VIOLATED no-panic: inputs %v stream %#x panicked with %v\", inputs, words, panicked)\n\t\t\treturn\n\t\t}\n")
	for _, ch := range checks {
		b.WriteString(ch)
	}
	b.WriteString("\t\t_ = results\n\t}\n}\n")
	src := b.String()
	out, failed := runOverlayTest(src, "TestGowpReplay")
	res := replayResult{GoTest: src, Output: out, Failed: failed}
	if failed {
		res.Summary = "the real function violates its contract on the counterexample's inputs (see replay output)"
	} else if strings.Contains(out, "build failed") || strings.Contains(out, "[build failed]") {
		res.Summary = "replay test did not build; no failing input found"
	} else {
		res.Summary = fmt.Sprintf("real code did not violate the executable part of the contract on the model's inputs over %d streams (%d clause parts not executable); no failing input found", nStreams, skipped)
	}
	return res
}
