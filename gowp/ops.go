package main

// Arithmetic, comparisons, conversions with Go's machine semantics (bit-vectors of the Go width, IEEE floats).

import (
	"fmt"
	"go/token"
	"go/types"

	"golang.org/x/tools/go/ssa"
)

func (x *Exec) execUnOp(st *State, fr *Frame, i *ssa.UnOp) Val {
	v := x.val(st, fr, i.X)
	switch i.Op {
	case token.MUL: // load
		return x.load(st, v, i.Type())
	case token.NOT:
		return tNot(v.(Term))
	case token.SUB:
		t := v.(Term)
		if isFP(t.Sort) {
			return st.def("neg", app(t.Sort, i.Type(), "fp.neg", t))
		}
		return st.def("neg", app(t.Sort, i.Type(), "bvneg", t))
	case token.XOR:
		t := v.(Term)
		return st.def("not", app(t.Sort, i.Type(), "bvnot", t))
	case token.ARROW:
		panic(unsupported{"channel receive"})
	}
	panic(unsupported{"unary " + i.Op.String()})
}

func (x *Exec) execBinOp(st *State, fr *Frame, i *ssa.BinOp) Val {
	a := x.val(st, fr, i.X)
	b := x.val(st, fr, i.Y)
	return x.binop(st, fr, i.Op, a, b, i.X.Type(), i.Y.Type(), i.Type(), i.Pos())
}

func (x *Exec) binop(st *State, fr *Frame, op token.Token, av, bv Val, at, bt, rt types.Type, pos token.Pos) Val {
	// comparisons on non-scalars
	if op == token.EQL || op == token.NEQ {
		eq := x.valEq(st, av, bv, at)
		if op == token.NEQ {
			eq = tNot(eq)
		}
		return st.def("cmp", eq)
	}
	a := st.asTerm(av, at)
	b := st.asTerm(bv, bt)
	signed := isSigned(at)
	res := func(f string) Term { return st.def("b", app(a.Sort, rt, f, a, b)) }
	cmp := func(f string) Term { return st.def("c", app(sBool, rt, f, a, b)) }
	if isFP(a.Sort) {
		switch op {
		case token.ADD:
			return st.def("f", app(a.Sort, rt, "fp.add RNE", a, b))
		case token.SUB:
			return st.def("f", app(a.Sort, rt, "fp.sub RNE", a, b))
		case token.MUL:
			return st.def("f", app(a.Sort, rt, "fp.mul RNE", a, b))
		case token.QUO:
			return st.def("f", app(a.Sort, rt, "fp.div RNE", a, b))
		case token.LSS:
			return cmp("fp.lt")
		case token.LEQ:
			return cmp("fp.leq")
		case token.GTR:
			return cmp("fp.gt")
		case token.GEQ:
			return cmp("fp.geq")
		}
		panic(unsupported{"float op " + op.String()})
	}
	if a.Sort == sStr {
		switch op {
		case token.ADD:
			r := st.def("cat", app(sStr, rt, "str_cat", a, b))
			st.assume(tEq(app(sBV(64), nil, "str_len", r), app(sBV(64), nil, "bvadd", app(sBV(64), nil, "str_len", a), app(sBV(64), nil, "str_len", b))))
			return r
		case token.LSS, token.LEQ, token.GTR, token.GEQ:
			st.declareOnce("str_lt", "(declare-fun str_lt (Str Str) Bool)")
			switch op {
			case token.LSS:
				return app(sBool, rt, "str_lt", a, b)
			case token.GTR:
				return app(sBool, rt, "str_lt", b, a)
			case token.LEQ:
				return tNot(app(sBool, rt, "str_lt", b, a))
			default:
				return tNot(app(sBool, rt, "str_lt", a, b))
			}
		}
		panic(unsupported{"string op " + op.String()})
	}
	if a.Sort == sInt {
		if b.Sort != sInt {
			panic(unsupported{"mixing mathematical and machine integers: " + a.S + " " + op.String() + " " + b.S})
		}
		switch op {
		case token.ADD:
			return app(sInt, mathInt, "+", a, b)
		case token.SUB:
			return app(sInt, mathInt, "-", a, b)
		case token.MUL:
			return app(sInt, mathInt, "*", a, b)
		case token.LSS:
			return app(sBool, rt, "<", a, b)
		case token.LEQ:
			return app(sBool, rt, "<=", a, b)
		case token.GTR:
			return app(sBool, rt, ">", a, b)
		case token.GEQ:
			return app(sBool, rt, ">=", a, b)
		}
		panic(unsupported{"mathematical integer op " + op.String()})
	}
	if a.Sort == sBool {
		switch op {
		case token.AND, token.LAND:
			return tAnd(a, b)
		case token.OR, token.LOR:
			return tOr(a, b)
		}
		panic(unsupported{"bool op " + op.String()})
	}
	if !isBV(a.Sort) {
		panic(unsupported{"binop " + op.String() + " on sort " + a.Sort})
	}
	w := bvWidth(a.Sort)
	switch op {
	case token.ADD:
		return res("bvadd")
	case token.SUB:
		return res("bvsub")
	case token.MUL:
		return res("bvmul")
	case token.QUO, token.REM:
		if fr != nil {
			x.safety(st, fr, "div-by-zero", tNot(tEq(b, Term{S: bvConst(0, w), Sort: a.Sort})), pos, "divisor is not zero")
		}
		if op == token.QUO {
			if signed {
				return res("bvsdiv")
			}
			return res("bvudiv")
		}
		if signed {
			return res("bvsrem")
		}
		return res("bvurem")
	case token.AND:
		return res("bvand")
	case token.OR:
		return res("bvor")
	case token.XOR:
		return res("bvxor")
	case token.AND_NOT:
		return st.def("b", app(a.Sort, rt, "bvand", a, app(a.Sort, nil, "bvnot", b)))
	case token.SHL, token.SHR:
		// shift count: any integer type; Go: count >= width gives 0 (or sign fill); negative signed count panics
		cnt := b
		cw := bvWidth(b.Sort)
		if isSigned(bt) && fr != nil {
			x.safety(st, fr, "shift-count", app(sBool, nil, "bvsge", b, Term{S: bvConst(0, cw), Sort: b.Sort}), pos, "shift count is not negative")
		}
		// bring count to width w, saturating
		var c Term
		switch {
		case cw == w:
			c = cnt
		case cw < w:
			c = app(a.Sort, nil, fmt.Sprintf("(_ zero_extend %d)", w-cw), cnt)
		default:
			// wider count: saturate to w if any high bit set
			hi := app(sBV(cw-w), nil, fmt.Sprintf("(_ extract %d %d)", cw-1, w), cnt)
			lo := app(a.Sort, nil, fmt.Sprintf("(_ extract %d 0)", w-1), cnt)
			c = tIte(tEq(hi, Term{S: bvConst(0, cw-w), Sort: sBV(cw - w)}), lo, Term{S: bvConst(uint64(w), w), Sort: a.Sort})
		}
		f := "bvshl"
		if op == token.SHR {
			f = "bvlshr"
			if signed {
				f = "bvashr"
			}
		}
		// SMT-LIB shifts by >= width already give 0 / sign fill, matching Go
		return st.def("sh", app(a.Sort, rt, f, a, c))
	case token.LSS:
		if signed {
			return cmp("bvslt")
		}
		return cmp("bvult")
	case token.LEQ:
		if signed {
			return cmp("bvsle")
		}
		return cmp("bvule")
	case token.GTR:
		if signed {
			return cmp("bvsgt")
		}
		return cmp("bvugt")
	case token.GEQ:
		if signed {
			return cmp("bvsge")
		}
		return cmp("bvuge")
	}
	panic(unsupported{"binop " + op.String()})
}

func (x *Exec) valEq(st *State, av, bv Val, t types.Type) Term {
	switch a := av.(type) {
	case *SliceV:
		// only comparison with nil is legal
		return tSame(a.Arr, Term{S: "ref_nil", Sort: sRef})
	case *StructV:
		b := bv.(*StructV)
		var parts []Term
		for i := range a.F {
			parts = append(parts, x.valEq(st, a.F[i], b.F[i], a.T.Field(i).Type()))
		}
		return tAnd(parts...)
	}
	if s, ok := bv.(*SliceV); ok {
		return tSame(s.Arr, Term{S: "ref_nil", Sort: sRef})
	}
	a := st.asTerm(av, t)
	b := st.asTerm(bv, t)
	if a.Sort != b.Sort {
		// nil constants of pointer-ish sorts
		if b.S == "ref_nil" {
			b = x.nilOf(a.Sort)
		} else if a.S == "ref_nil" {
			a = x.nilOf(b.Sort)
		}
	}
	return tEq(a, b)
}

func (x *Exec) nilOf(sort string) Term {
	switch sort {
	case sAny:
		return Term{S: "any_nil", Sort: sAny}
	case sFn:
		return Term{S: "fn_nil", Sort: sFn}
	}
	return Term{S: "ref_nil", Sort: sRef}
}

func (x *Exec) execConvert(st *State, v Val, from, to types.Type) Val {
	fs, ok1 := x.sortOf(from)
	ts, ok2 := x.sortOf(to)
	if !ok1 || !ok2 {
		// []byte(string) etc.
		if _, ok := under(to).(*types.Slice); ok {
			s := st.freshVal(to, "conv").(*SliceV)
			if ft, ok := v.(Term); ok && ft.Sort == sStr {
				st.assume(tEq(s.Len, app(sBV(64), nil, "str_len", ft)))
			}
			return s
		}
		if sv, ok := v.(*SliceV); ok && ts == sStr {
			r := st.fresh("conv_str", sStr, to)
			st.assume(tEq(app(sBV(64), nil, "str_len", r), sv.Len))
			return r
		}
		panic(unsupported{"conversion " + from.String() + " -> " + to.String()})
	}
	t := st.asTerm(v, from)
	switch {
	case isBV(fs) && isBV(ts):
		fw, tw := bvWidth(fs), bvWidth(ts)
		switch {
		case fw == tw:
			t.Typ = to
			return t
		case fw > tw:
			return st.def("trunc", app(ts, to, fmt.Sprintf("(_ extract %d 0)", tw-1), t))
		default:
			if isSigned(from) {
				return st.def("sext", app(ts, to, fmt.Sprintf("(_ sign_extend %d)", tw-fw), t))
			}
			return st.def("zext", app(ts, to, fmt.Sprintf("(_ zero_extend %d)", tw-fw), t))
		}
	case isBV(fs) && isFP(ts):
		eb, sb := fpDims(ts)
		if isSigned(from) {
			return st.def("i2f", app(ts, to, fmt.Sprintf("(_ to_fp %d %d) RNE", eb, sb), t))
		}
		return st.def("u2f", app(ts, to, fmt.Sprintf("(_ to_fp_unsigned %d %d) RNE", eb, sb), t))
	case isFP(fs) && isBV(ts):
		w := bvWidth(ts)
		// Out-of-range and NaN results are implementation-defined in Go; fp.to_ubv/fp.to_sbv are
		// unspecified there too (an arbitrary but fixed function of the argument), which is exactly that.
		if isSigned(to) {
			return st.def("f2i", app(ts, to, fmt.Sprintf("(_ fp.to_sbv %d) RTZ", w), t))
		}
		return st.def("f2u", app(ts, to, fmt.Sprintf("(_ fp.to_ubv %d) RTZ", w), t))
	case isFP(fs) && isFP(ts):
		if fs == ts {
			t.Typ = to
			return t
		}
		eb, sb := fpDims(ts)
		return st.def("f2f", app(ts, to, fmt.Sprintf("(_ to_fp %d %d) RNE", eb, sb), t))
	case fs == ts:
		t.Typ = to
		return t
	case isBV(fs) && ts == sStr:
		// string(rune)
		st.declareOnce("str_of_rune", "(declare-fun str_of_rune ((_ BitVec 32)) Str)")
		if bvWidth(fs) == 32 {
			return app(sStr, to, "str_of_rune", t)
		}
		return st.fresh("conv_str", sStr, to)
	}
	panic(unsupported{"conversion " + from.String() + " -> " + to.String()})
}

func fpDims(sort string) (int, int) {
	var e, s int
	fmt.Sscanf(sort, "(_ FloatingPoint %d %d)", &e, &s)
	return e, s
}
