package main

// SMT layer: sorts, terms (as SMT-LIB text), prelude, and the solver race.

import (
	"bytes"
	"context"
	"fmt"
	"go/types"
	"os"
	"os/exec"
	"path/filepath"
	"regexp"
	"strings"
	"sync"
	"sync/atomic"
	"time"
)

const (
	sBool = "Bool"
	sStr  = "Str"
	sRef  = "Ref"
	sAny  = "Any"
	sFn   = "Fn"
	sGen  = "Gen"
	sF64  = "(_ FloatingPoint 11 53)"
	sF32  = "(_ FloatingPoint 8 24)"
	sInt  = "Int"
)

func sBV(w int) string { return fmt.Sprintf("(_ BitVec %d)", w) }

func sArr(idx, el string) string { return "(Array " + idx + " " + el + ")" }

// Term is an SMT-LIB term with its sort and (optionally) the Go type it stands for.
type Term struct {
	S    string
	Sort string
	Typ  types.Type // may be nil
}

func (t Term) String() string { return t.S }

func mk(s, sort string, typ types.Type) Term { return Term{S: s, Sort: sort, Typ: typ} }

var (
	tTrue  = Term{S: "true", Sort: sBool}
	tFalse = Term{S: "false", Sort: sBool}
)

func bvWidth(sort string) int {
	var w int
	if _, err := fmt.Sscanf(sort, "(_ BitVec %d)", &w); err == nil {
		return w
	}
	return 0
}

func isBV(sort string) bool { return strings.HasPrefix(sort, "(_ BitVec ") }
func isFP(sort string) bool { return strings.HasPrefix(sort, "(_ FloatingPoint ") }

func bvConst(v uint64, w int) string {
	if w == 64 {
		return fmt.Sprintf("#x%016x", v)
	}
	if w%4 == 0 {
		mask := uint64(1)<<uint(w) - 1
		return fmt.Sprintf("#x%0*x", w/4, v&mask)
	}
	mask := uint64(1)<<uint(w) - 1
	return fmt.Sprintf("(_ bv%d %d)", v&mask, w)
}

func tNot(a Term) Term {
	switch a.S {
	case "true":
		return tFalse
	case "false":
		return tTrue
	}
	if strings.HasPrefix(a.S, "(not ") && strings.HasSuffix(a.S, ")") {
		inner := a.S[5 : len(a.S)-1]
		if balanced(inner) {
			return Term{S: inner, Sort: sBool}
		}
	}
	return Term{S: "(not " + a.S + ")", Sort: sBool}
}

func balanced(s string) bool {
	d := 0
	for i, c := range s {
		if c == '(' {
			d++
		} else if c == ')' {
			d--
			if d == 0 && i != len(s)-1 {
				return false
			}
			if d < 0 {
				return false
			}
		} else if d == 0 && (c == ' ') {
			return false
		}
	}
	return d == 0
}

func tAnd(ts ...Term) Term {
	var parts []string
	for _, t := range ts {
		if t.S == "true" {
			continue
		}
		if t.S == "false" {
			return tFalse
		}
		parts = append(parts, t.S)
	}
	switch len(parts) {
	case 0:
		return tTrue
	case 1:
		return Term{S: parts[0], Sort: sBool}
	}
	return Term{S: "(and " + strings.Join(parts, " ") + ")", Sort: sBool}
}

func tOr(ts ...Term) Term {
	var parts []string
	for _, t := range ts {
		if t.S == "false" {
			continue
		}
		if t.S == "true" {
			return tTrue
		}
		parts = append(parts, t.S)
	}
	switch len(parts) {
	case 0:
		return tFalse
	case 1:
		return Term{S: parts[0], Sort: sBool}
	}
	return Term{S: "(or " + strings.Join(parts, " ") + ")", Sort: sBool}
}

func tImplies(a, b Term) Term {
	if a.S == "true" {
		return b
	}
	if a.S == "false" || b.S == "true" {
		return tTrue
	}
	return Term{S: "(=> " + a.S + " " + b.S + ")", Sort: sBool}
}

func tEq(a, b Term) Term {
	if a.S == b.S {
		return tTrue
	}
	if isFP(a.Sort) {
		return Term{S: "(fp.eq " + a.S + " " + b.S + ")", Sort: sBool}
	}
	return Term{S: "(= " + a.S + " " + b.S + ")", Sort: sBool}
}

// tSame is structural equality (also for floats: same value incl. NaN==NaN); used for havoc/frames.
func tSame(a, b Term) Term {
	if a.S == b.S {
		return tTrue
	}
	return Term{S: "(= " + a.S + " " + b.S + ")", Sort: sBool}
}

func tIte(c, a, b Term) Term {
	if c.S == "true" {
		return a
	}
	if c.S == "false" {
		return b
	}
	return Term{S: "(ite " + c.S + " " + a.S + " " + b.S + ")", Sort: a.Sort, Typ: a.Typ}
}

func app(sort string, typ types.Type, f string, args ...Term) Term {
	var b strings.Builder
	b.WriteString("(")
	b.WriteString(f)
	for _, a := range args {
		b.WriteString(" ")
		b.WriteString(a.S)
	}
	b.WriteString(")")
	return Term{S: b.String(), Sort: sort, Typ: typ}
}

func tSelect(arr, idx Term) Term {
	// arr sort is (Array I E)
	el := arrayElemSort(arr.Sort)
	return Term{S: "(select " + arr.S + " " + idx.S + ")", Sort: el}
}

func tStore(arr, idx, v Term) Term {
	return Term{S: "(store " + arr.S + " " + idx.S + " " + v.S + ")", Sort: arr.Sort}
}

// arrayElemSort parses "(Array I E)" and returns E.
func arrayElemSort(s string) string {
	if !strings.HasPrefix(s, "(Array ") {
		panic("not an array sort: " + s)
	}
	body := s[len("(Array ") : len(s)-1]
	// skip first sort
	i := skipSexp(body, 0)
	return strings.TrimSpace(body[i:])
}

func arrayIdxSort(s string) string {
	body := s[len("(Array ") : len(s)-1]
	i := skipSexp(body, 0)
	return strings.TrimSpace(body[:i])
}

func skipSexp(s string, i int) int {
	for i < len(s) && s[i] == ' ' {
		i++
	}
	if i < len(s) && s[i] == '(' {
		d := 0
		for ; i < len(s); i++ {
			if s[i] == '(' {
				d++
			} else if s[i] == ')' {
				d--
				if d == 0 {
					return i + 1
				}
			}
		}
		return i
	}
	for i < len(s) && s[i] != ' ' {
		i++
	}
	return i
}

// ---------------------------------------------------------------------------------------------
// Prelude

const preludeSMT = `
(set-option :produce-models true)
(set-logic ALL)
(declare-sort Str 0)
(declare-sort Ref 0)
(declare-sort Fn 0)
(declare-sort Gen 0)
(declare-datatypes ((Any 0)) (((any_nil) (any_str (any_str_tag Int) (any_str_v Str)) (any_ref (any_ref_tag Int) (any_ref_v Ref)) (any_bv (any_bv_tag Int) (any_bv_v (_ BitVec 64))) (any_other (any_other_id Int)))))
(declare-const ref_nil Ref)
(declare-const fn_nil Fn)
(declare-const str_empty Str)
(declare-fun str_len (Str) (_ BitVec 64))
(declare-fun str_cat (Str Str) Str)
(assert (= (str_len str_empty) #x0000000000000000))
(define-fun mask ((n (_ BitVec 64))) (_ BitVec 64) (bvsub (ite (bvult n #x0000000000000040) (bvshl #x0000000000000001 n) #x0000000000000000) #x0000000000000001))
(define-fun len64 ((x (_ BitVec 64))) (_ BitVec 64)
  (let ((s5 (ite (= ((_ extract 63 32) x) #x00000000) #x0000000000000000 #x0000000000000020)))
  (let ((x5 (bvlshr x s5)))
  (let ((s4 (ite (= ((_ extract 31 16) x5) #x0000) #x0000000000000000 #x0000000000000010)))
  (let ((x4 (bvlshr x5 s4)))
  (let ((s3 (ite (= ((_ extract 15 8) x4) #x00) #x0000000000000000 #x0000000000000008)))
  (let ((x3 (bvlshr x4 s3)))
  (let ((s2 (ite (= ((_ extract 7 4) x3) #x0) #x0000000000000000 #x0000000000000004)))
  (let ((x2 (bvlshr x3 s2)))
  (let ((s1 (ite (= ((_ extract 3 2) x2) #b00) #x0000000000000000 #x0000000000000002)))
  (let ((x1 (bvlshr x2 s1)))
  (let ((s0 (ite (= ((_ extract 1 1) x1) #b0) #x0000000000000000 #x0000000000000001)))
  (ite (= x #x0000000000000000) #x0000000000000000 (bvadd s5 s4 s3 s2 s1 s0 #x0000000000000001))))))))))))))
(declare-fun log1p ((_ FloatingPoint 11 53)) (_ FloatingPoint 11 53))
`

// ---------------------------------------------------------------------------------------------
// Solvers

type solverSpec struct {
	name string
	argv func(timeoutMs int) []string
}

var solvers = []solverSpec{
	{"z3-5.1.0", func(ms int) []string { return []string{"z3-new", fmt.Sprintf("-T:%d", (ms+999)/1000), "-smt2"} }},
	{"z3-4.8.12", func(ms int) []string { return []string{"z3", fmt.Sprintf("-T:%d", (ms+999)/1000), "-smt2"} }},
	{"cvc5-1.0.3", func(ms int) []string {
		return []string{"cvc5", fmt.Sprintf("--tlimit=%d", ms), "--lang=smt2", "--fp-exp"}
	}},
}

type solveResult struct {
	Verdict string // unsat | sat | unknown | error
	Solver  string
	Model   string
	Time    float64
	PerSolv map[string]string
	Raw     string
}

var (
	queryCounter int64
	queryDir     string
	queryDirOnce sync.Once
	keepQueries  = os.Getenv("GOWP_KEEP") != ""
)

func getQueryDir() string {
	queryDirOnce.Do(func() {
		d, err := os.MkdirTemp("/var/tmp", "gowp-q-")
		if err != nil {
			d, _ = os.MkdirTemp("", "gowp-q-")
		}
		queryDir = d
	})
	return queryDir
}

func cleanupQueryDir() {
	if queryDir != "" && !keepQueries {
		os.RemoveAll(queryDir)
	}
}

var firstLineRe = regexp.MustCompile(`(?m)^(unsat|sat|unknown|timeout)\s*$`)

func runOne(ctx context.Context, sp solverSpec, file string, timeoutMs int) (string, string) {
	argv := append(sp.argv(timeoutMs), file)
	cctx, cancel := context.WithTimeout(ctx, time.Duration(timeoutMs+2000)*time.Millisecond)
	defer cancel()
	cmd := exec.CommandContext(cctx, argv[0], argv[1:]...)
	var out bytes.Buffer
	cmd.Stdout = &out
	cmd.Stderr = &out
	_ = cmd.Run()
	s := out.String()
	m := firstLineRe.FindString(s)
	m = strings.TrimSpace(m)
	switch m {
	case "unsat", "sat":
		return m, s
	case "unknown", "timeout":
		return "unknown", s
	}
	if cctx.Err() != nil {
		return "unknown", s
	}
	return "error", s
}

// solve races the solvers on the query. mode "first": first definite answer wins. mode "all": every solver
// runs to completion and definite verdicts must agree.
func solve(query string, timeoutMs int, all bool, which []int, expectSat bool) solveResult {
	n := atomic.AddInt64(&queryCounter, 1)
	file := filepath.Join(getQueryDir(), fmt.Sprintf("q%06d.smt2", n))
	if err := os.WriteFile(file, []byte(query), 0o644); err != nil {
		return solveResult{Verdict: "error", Raw: err.Error()}
	}
	if !keepQueries {
		defer os.Remove(file)
	}
	start := time.Now()
	ctx, cancel := context.WithCancel(context.Background())
	defer cancel()
	type r struct {
		name, v, raw string
	}
	if which == nil {
		which = []int{0, 1, 2}
	}
	ch := make(chan r, len(which))
	for _, i := range which {
		sp := solvers[i]
		go func() {
			v, raw := runOne(ctx, sp, file, timeoutMs)
			ch <- r{sp.name, v, raw}
		}()
	}
	res := solveResult{Verdict: "unknown", PerSolv: map[string]string{}}
	// all-solver mode: once one solver has decided, the others get a grace period (five times its time, at least
	// 30 s) to agree or disagree; after that they count as "no answer" - waiting out the full budget for a solver that
	// will not answer adds nothing to the cross-check.
	var grace <-chan time.Time
	for k := 0; k < len(which); k++ {
		var x r
		select {
		case x = <-ch:
		case <-grace:
			cancel()
			k = len(which)
			continue
		}
		if all && grace == nil && (x.v == "sat" || x.v == "unsat") {
			g := 5 * time.Since(start)
			if g < 30*time.Second {
				g = 30 * time.Second
			}
			grace = time.After(g)
		}
		res.PerSolv[x.name] = x.v
		if x.v == "sat" || x.v == "unsat" {
			if res.Verdict == "sat" || res.Verdict == "unsat" {
				if res.Verdict != x.v {
					res.Verdict = "error"
					res.Raw = "solver disagreement: " + fmt.Sprint(res.PerSolv)
					break
				}
				continue
			}
			res.Verdict = x.v
			res.Solver = x.name
			res.Raw = x.raw
			if x.v == "sat" {
				res.Model = x.raw
			}
			if !all {
				cancel()
				break
			}
		} else if res.Verdict == "unknown" && res.Raw == "" && x.v == "error" {
			res.Raw = x.name + ": " + x.raw
		}
	}
	res.Time = time.Since(start).Seconds()
	// A "sat" answer to a query with quantifiers is not a counterexample (the solvers do not check the model
	// against the quantified hypotheses; z3 5.1 was seen to answer sat on a valid goal): undecided.
	if res.Verdict == "sat" && !expectSat && (strings.Contains(query, "(forall ") || strings.Contains(query, "(exists ")) {
		res.Verdict = "unknown"
		res.Raw = "sat reported for a query with quantifiers: treated as undecided\n" + res.Raw
		res.Model = ""
	}
	return res
}
