package main

// State merging at control-flow joins. At a two-way branch with a symbolic condition c the executor runs each
// side up to the immediate post-dominator J of the branch block and, if each side arrives there with exactly one
// state, merges the two: differing values become ite(c, a, b); assertions made on one side only are kept guarded
// by the side's condition. Obligations raised inside a side keep the unmerged, path-specific script. When the
// two sides are not mergeable (different heap epochs, different defer stacks, several arrivals) they simply
// continue as separate paths, which is always sound.

import (
	"fmt"
	"sort"
	"strings"

	"golang.org/x/tools/go/ssa"
)

type pdomInfo struct {
	ipdom map[*ssa.BasicBlock]*ssa.BasicBlock
}

func (x *Exec) postDoms(fn *ssa.Function) *pdomInfo {
	if p, ok := x.pdoms[fn]; ok {
		return p
	}
	n := len(fn.Blocks)
	// pd[i] = set of post-dominators of block i, as bitset over n+1 (n = virtual exit)
	full := make([]bool, n+1)
	for i := range full {
		full[i] = true
	}
	pd := make([][]bool, n)
	for i := range pd {
		pd[i] = append([]bool(nil), full...)
	}
	changed := true
	for changed {
		changed = false
		for i := n - 1; i >= 0; i-- {
			b := fn.Blocks[i]
			nw := make([]bool, n+1)
			if len(b.Succs) == 0 {
				nw[n] = true
			} else {
				for k := range nw {
					nw[k] = true
				}
				for _, s := range b.Succs {
					for k := range nw {
						nw[k] = nw[k] && pd[s.Index][k]
					}
				}
			}
			nw[i] = true
			for k := range nw {
				if nw[k] != pd[i][k] {
					changed = true
				}
			}
			pd[i] = nw
		}
	}
	info := &pdomInfo{ipdom: map[*ssa.BasicBlock]*ssa.BasicBlock{}}
	for i, b := range fn.Blocks {
		// strict post-dominators of b
		var cands []int
		for k := 0; k < n; k++ {
			if k != i && pd[i][k] {
				cands = append(cands, k)
			}
		}
		// the immediate one is post-dominated by... all other candidates post-dominate it
		for _, c := range cands {
			ok := true
			for _, d := range cands {
				if d != c && !pd[c][d] {
					ok = false
					break
				}
			}
			if ok {
				info.ipdom[b] = fn.Blocks[c]
				break
			}
		}
	}
	x.pdoms[fn] = info
	return info
}

// atJoin reports whether st sits at the start of block J (after its phis) in the frame at depth d.
func atJoin(st *State, d int, J *ssa.BasicBlock) bool {
	if st.dead || len(st.frames) != d {
		return false
	}
	fr := st.top()
	if fr.block != J || fr.unwinding || fr.runningDefers {
		return false
	}
	// past the phis?
	for k := 0; k < fr.pc; k++ {
		switch J.Instrs[k].(type) {
		case *ssa.Phi, *ssa.DebugRef:
		default:
			return false
		}
	}
	if fr.pc < len(J.Instrs) {
		switch J.Instrs[fr.pc].(type) {
		case *ssa.Phi:
			return false
		}
	}
	return true
}

// runSide explores from st until every descendant either arrives at J (frame depth d) or leaves the region.
func (x *Exec) runSide(st *State, d int, J *ssa.BasicBlock) (arrivals, others []*State) {
	if J == nil {
		return x.runSideRet(st, d)
	}
	stack := []*State{st}
	budget := 4000
	for len(stack) > 0 {
		s := stack[len(stack)-1]
		stack = stack[:len(stack)-1]
		for {
			if s.dead {
				break
			}
			if atJoin(s, d, J) {
				arrivals = append(arrivals, s)
				break
			}
			if len(s.frames) < d || (len(s.frames) == d && (s.top().unwinding)) {
				// left the region (return from the frame or unwinding through it)
				others = append(others, s)
				break
			}
			more := x.safeStep(s)
			stack = append(stack, more...)
			s.steps++
			budget--
			if s.steps > x.maxSteps || budget < 0 {
				others = append(others, s)
				break
			}
		}
	}
	return
}

// runSideRet explores an inlined callee (frame depth d) until it has returned normally to its caller.
func (x *Exec) runSideRet(st *State, d int) (arrivals, others []*State) {
	stack := []*State{st}
	budget := 4000
	for len(stack) > 0 {
		s := stack[len(stack)-1]
		stack = stack[:len(stack)-1]
		for {
			if s.dead {
				break
			}
			if len(s.frames) == d-1 {
				if s.top().unwinding {
					others = append(others, s)
				} else {
					arrivals = append(arrivals, s)
				}
				break
			}
			if len(s.frames) < d-1 {
				others = append(others, s)
				break
			}
			more := x.safeStep(s)
			stack = append(stack, more...)
			s.steps++
			budget--
			if s.steps > x.maxSteps || budget < 0 {
				others = append(others, s)
				break
			}
		}
	}
	return
}

// branchMerged handles an If with symbolic condition; returns (handled, extra states to explore).
func (x *Exec) branchMerged(st *State, fr *Frame, c Term, posT, posF string) (bool, []*State) {
	if x.noMerge {
		return false, nil
	}
	J := x.postDoms(fr.fn).ipdom[fr.block]
	if J == nil && (len(st.frames) < 2 || fr.deferred) {
		return false, nil
	}
	// never merge across a loop head that is not yet cut in a way that hides back edges: the sides handle that
	d := len(st.frames)
	base := st.script
	a := st.fork()
	b := st.fork()
	a.assume(c)
	a.path = append(a.path, posT)
	b.assume(tNot(c))
	b.path = append(b.path, posF)
	var pre []*State
	pre = append(pre, x.jump(a, a.top(), fr.block.Succs[0])...)
	pre = append(pre, x.jump(b, b.top(), fr.block.Succs[1])...)
	arrA, othA := x.runSide(a, d, J)
	arrB, othB := x.runSide(b, d, J)
	out := append(pre, othA...)
	out = append(out, othB...)
	st.dead = true
	if len(arrA) == 1 && len(arrB) == 1 {
		if m := x.mergeStates(base, c, arrA[0], arrB[0], st); m != nil {
			x.merges++
			out = append(out, m)
			return true, out
		}
	}
	out = append(out, arrA...)
	out = append(out, arrB...)
	return true, out
}

func guardLines(lines []string, c Term, seen map[string]bool, out *[]string) {
	for _, l := range lines {
		if strings.HasPrefix(l, "(assert ") {
			body := l[len("(assert ") : len(l)-1]
			g := "(assert (=> " + c.S + " " + body + "))"
			*out = append(*out, g)
			continue
		}
		if strings.HasPrefix(l, "(declare-") {
			if seen[l] {
				continue
			}
			seen[l] = true
		}
		*out = append(*out, l)
	}
}

func linesAfter(s, base *scriptNode) []string {
	nb := 0
	if base != nil {
		nb = base.n
	}
	if s == nil || s.n <= nb {
		return nil
	}
	all := s.lines()
	return all[nb:]
}

func (x *Exec) mergeStates(base *scriptNode, c Term, a, b, orig *State) *State {
	if a.epoch != b.epoch || len(a.marks) != len(b.marks) || len(a.frames) != len(b.frames) {
		return nil
	}
	for i := range a.marks {
		if a.marks[i] != b.marks[i] {
			return nil
		}
	}
	if a.panicking != nil || b.panicking != nil {
		return nil
	}
	for i := range a.frames {
		fa, fb := a.frames[i], b.frames[i]
		if fa.fn != fb.fn || fa.block != fb.block || fa.pc != fb.pc || len(fa.defers) != len(fb.defers) || fa.unwinding != fb.unwinding || fa.runningDefers != fb.runningDefers {
			return nil
		}
		for k := range fa.defers {
			if fa.defers[k].instr != fb.defers[k].instr {
				return nil
			}
		}
	}
	m := a.fork()
	// script
	seen := map[string]bool{}
	for _, l := range base.lines() {
		if strings.HasPrefix(l, "(declare-") {
			seen[l] = true
		}
	}
	var lines []string
	guardLines(linesAfter(a.script, base), c, seen, &lines)
	guardLines(linesAfter(b.script, base), tNot(c), seen, &lines)
	m.script = base
	for _, l := range lines {
		m.script = m.script.push(l)
	}
	for k := range b.declared {
		m.declared[k] = true
	}
	ok := true
	mv := func(va, vb Val, hint string) Val {
		r, good := x.mergeVal(m, c, va, vb, hint)
		if !good {
			ok = false
		}
		return r
	}
	// frames
	for i := range a.frames {
		fa, fb, fm := a.frames[i], b.frames[i], m.frames[i]
		for _, k := range sortedRegs(fa.regs) {
			va := fa.regs[k]
			if vb, has := fb.regs[k]; has {
				fm.regs[k] = mv(va, vb, "m_"+k.Name())
			}
		}
		for k, vb := range fb.regs {
			if _, has := fa.regs[k]; !has {
				fm.regs[k] = vb
			}
		}
		for k := range fa.defers {
			for j := range fa.defers[k].args {
				fm.defers[k].args[j] = mv(fa.defers[k].args[j], fb.defers[k].args[j], "m_defarg")
			}
			if fa.defers[k].callee != nil {
				fm.defers[k].callee = mv(fa.defers[k].callee, fb.defers[k].callee, "m_defcallee")
			}
		}
		for h, cv := range fb.cut {
			if _, has := fm.cut[h]; !has {
				fm.cut[h] = cv
			}
		}
		if i == len(a.frames)-1 {
			fm.prev = fa.prev // phis already executed
		}
	}
	// cells
	for _, k := range sortedCells(a.cells) {
		va := a.cells[k]
		if vb, has := b.cells[k]; has {
			m.cells[k] = mv(va, vb, "m_"+k.name)
		}
	}
	for k, vb := range b.cells {
		if _, has := a.cells[k]; !has {
			m.cells[k] = vb
		}
	}
	// heap
	keys := map[string]bool{}
	for k := range a.heap {
		keys[k] = true
	}
	for k := range b.heap {
		keys[k] = true
	}
	for _, k := range sortedKeys(keys) {
		ta, hasA := a.heap[k]
		tb, hasB := b.heap[k]
		switch {
		case hasA && hasB:
			if ta.S != tb.S {
				m.heap[k] = m.def("mH_"+k, tIte(c, ta, tb))
			}
		case hasA:
			init := m.heapInit(k, arrayElemSort(ta.Sort), epochFor(k, m.epoch, m.marks))
			init.Sort = ta.Sort
			if ta.S != init.S {
				m.heap[k] = m.def("mH_"+k, tIte(c, ta, init))
			}
		default:
			init := m.heapInit(k, arrayElemSort(tb.Sort), epochFor(k, m.epoch, m.marks))
			init.Sort = tb.Sort
			if tb.S != init.S {
				m.heap[k] = m.def("mH_"+k, tIte(c, init, tb))
			} else {
				m.heap[k] = tb
			}
		}
	}
	// ghost
	for _, k := range sortedKeys(a.ghost) {
		ga := a.ghost[k]
		if gb, has := b.ghost[k]; has && ga.S != gb.S {
			m.ghost[k] = m.def("mG_"+k, tIte(c, ga, gb))
		}
	}
	if !ok {
		return nil
	}
	for k, v := range b.interfered {
		m.interfered[k] = append(m.interfered[k], v...)
	}
	m.draws = append(append([]string(nil), a.draws...), b.draws[len(orig.draws):]...)
	m.path = append(append([]string(nil), orig.path...), fmt.Sprintf("merge@b%d", a.top().block.Index))
	if a.steps < b.steps {
		m.steps = b.steps
	}
	return m
}

func (x *Exec) mergeVal(m *State, c Term, va, vb Val, hint string) (Val, bool) {
	switch a := va.(type) {
	case nil:
		return nil, vb == nil
	case Term:
		b, ok := vb.(Term)
		if !ok {
			return va, false
		}
		if a.S == b.S {
			return a, true
		}
		if a.Sort != b.Sort {
			return va, false
		}
		r := tIte(c, a, b)
		if r.Typ == nil {
			r.Typ = b.Typ
		}
		return m.def(hint, r), true
	case *StructV:
		b, ok := vb.(*StructV)
		if !ok || len(a.F) != len(b.F) {
			return va, false
		}
		n := &StructV{T: a.T, Named: a.Named, F: make([]Val, len(a.F))}
		good := true
		for i := range a.F {
			var g bool
			n.F[i], g = x.mergeVal(m, c, a.F[i], b.F[i], hint)
			good = good && g
		}
		return n, good
	case *SliceV:
		b, ok := vb.(*SliceV)
		if !ok {
			if t, isT := vb.(Term); isT && t.S == "ref_nil" {
				b = m.asSlice(t, a.Elem)
			} else {
				return va, false
			}
		}
		f := func(p, q Term) Term {
			if p.S == q.S {
				return p
			}
			return m.def(hint, tIte(c, p, q))
		}
		return &SliceV{Arr: f(a.Arr, b.Arr), Off: f(a.Off, b.Off), Len: f(a.Len, b.Len), Cap: f(a.Cap, b.Cap), Elem: a.Elem}, true
	case TupleV:
		b, ok := vb.(TupleV)
		if !ok || len(a) != len(b) {
			return va, false
		}
		n := make(TupleV, len(a))
		good := true
		for i := range a {
			var g bool
			n[i], g = x.mergeVal(m, c, a[i], b[i], hint)
			good = good && g
		}
		return n, good
	case CellPtr:
		b, ok := vb.(CellPtr)
		if !ok || a.C != b.C || len(a.Path) != len(b.Path) {
			return va, false
		}
		for i := range a.Path {
			if a.Path[i].field != b.Path[i].field || a.Path[i].idx.S != b.Path[i].idx.S {
				return va, false
			}
		}
		return a, true
	case FieldPtr:
		b, ok := vb.(FieldPtr)
		if !ok || a.S != b.S || a.Idx != b.Idx {
			return va, false
		}
		if a.Ref.S == b.Ref.S {
			return a, true
		}
		return FieldPtr{Ref: m.def(hint, tIte(c, a.Ref, b.Ref)), S: a.S, SN: a.SN, Idx: a.Idx}, true
	case ElemPtr:
		b, ok := vb.(ElemPtr)
		if !ok {
			return va, false
		}
		f := func(p, q Term) Term {
			if p.S == q.S {
				return p
			}
			return m.def(hint, tIte(c, p, q))
		}
		return ElemPtr{Arr: f(a.Arr, b.Arr), Idx: f(a.Idx, b.Idx), Elem: a.Elem}, true
	case ElemFieldPtr:
		b, ok := vb.(ElemFieldPtr)
		if !ok || a.Field != b.Field || a.Arr.S != b.Arr.S || a.Idx.S != b.Idx.S {
			return va, false
		}
		return a, true
	case ArrPtr:
		b, ok := vb.(ArrPtr)
		if !ok || a.Ref.S != b.Ref.S {
			return va, false
		}
		return a, true
	case GlobalPtr:
		b, ok := vb.(GlobalPtr)
		return va, ok && a.G == b.G
	case *ClosureV:
		b, ok := vb.(*ClosureV)
		if !ok || a.Fn != b.Fn || len(a.Bind) != len(b.Bind) {
			return va, false
		}
		n := &ClosureV{Fn: a.Fn, Bind: make([]Val, len(a.Bind))}
		good := true
		for i := range a.Bind {
			var g bool
			n.Bind[i], g = x.mergeVal(m, c, a.Bind[i], b.Bind[i], hint)
			good = good && g
		}
		return n, good
	case *ssa.Function:
		b, ok := vb.(*ssa.Function)
		return va, ok && a == b
	case BuiltinV:
		b, ok := vb.(BuiltinV)
		return va, ok && a == b
	case MapIterV:
		return va, true
	}
	return va, false
}

// deterministic iteration orders (the query text must not depend on Go's map order: solver time does)
func sortedRegs(m map[ssa.Value]Val) []ssa.Value {
	out := make([]ssa.Value, 0, len(m))
	for k := range m {
		out = append(out, k)
	}
	sort.Slice(out, func(i, j int) bool {
		if out[i].Pos() != out[j].Pos() {
			return out[i].Pos() < out[j].Pos()
		}
		if out[i].Name() != out[j].Name() {
			return out[i].Name() < out[j].Name()
		}
		return out[i].String() < out[j].String()
	})
	return out
}

func sortedCells(m map[*Cell]Val) []*Cell {
	out := make([]*Cell, 0, len(m))
	for k := range m {
		out = append(out, k)
	}
	sort.Slice(out, func(i, j int) bool {
		if out[i].name != out[j].name {
			return out[i].name < out[j].name
		}
		return out[i].id < out[j].id
	})
	return out
}
