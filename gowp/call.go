package main

// Calls: contracts, inlining, builtins, intrinsics, defers, panics, returns.

import (
	"fmt"
	"go/ast"
	"go/token"
	"go/types"
	"regexp"
	"strings"

	"golang.org/x/tools/go/ssa"
)

func ifaceKey(cc *ssa.CallCommon, home *types.Package) string {
	t := types.Unalias(cc.Value.Type())
	name := sanitize(t.String())
	if n, ok := t.(*types.Named); ok {
		name = n.Obj().Name()
		if n.Obj().Pkg() != nil && n.Obj().Pkg() != home {
			name = n.Obj().Pkg().Name() + "." + name
		}
	} else if _, ok := t.(*types.TypeParam); ok {
		name = "typeparam"
	} else if it, ok := under(t).(*types.Interface); ok && it.NumMethods() <= 2 {
		name = "interface"
	}
	return name + "." + cc.Method.Name()
}

func (x *Exec) callbackContract(t types.Type) *Contract {
	sig, ok := under(t).(*types.Signature)
	if !ok {
		return nil
	}
	// a named function type may have its own callback contract (e.g. context.CancelFunc)
	if n, isNamed := types.Unalias(t).(*types.Named); isNamed {
		nk := n.Obj().Name()
		if n.Obj().Pkg() != nil && n.Obj().Pkg() != x.pkg.Pkg {
			nk = n.Obj().Pkg().Name() + "." + nk
		}
		if c := x.specs.Contracts[nk]; c != nil && c.Callback {
			return c
		}
	}
	key := types.TypeString(sig, func(p *types.Package) string {
		if p == x.pkg.Pkg {
			return ""
		}
		return p.Name()
	})
	if c := x.specs.Contracts[key]; c != nil && c.Callback {
		return c
	}
	return nil
}

func (x *Exec) execCall(st *State, fr *Frame, i *ssa.Call, cc *ssa.CallCommon, deferred bool) []*State {
	var args []Val
	for _, a := range cc.Args {
		args = append(args, x.val(st, fr, a))
	}
	var callee Val
	if cc.IsInvoke() {
		callee = nil
		args = append([]Val{x.val(st, fr, cc.Value)}, args...)
	} else {
		callee = x.val(st, fr, cc.Value)
	}
	return x.dispatch(st, fr, i, cc, callee, args, false)
}

func (x *Exec) execDefer(st *State, fr *Frame, d *ssa.Defer) {
	cc := &d.Call
	rec := deferRec{common: cc, instr: d}
	for _, a := range cc.Args {
		rec.args = append(rec.args, x.val(st, fr, a))
	}
	if cc.IsInvoke() {
		rec.args = append([]Val{x.val(st, fr, cc.Value)}, rec.args...)
	} else {
		rec.callee = x.val(st, fr, cc.Value)
	}
	fr.defers = append(fr.defers, rec)
}

// finishPlain completes a call without looking at annotations or once sections.
func (x *Exec) finishPlain(st *State, fr *Frame, retTo ssa.Value, deferred bool) {
	if deferred {
		return
	}
	fr.pc++
}

// finish completes a call instruction in the current frame.
func (x *Exec) finish(st *State, fr *Frame, retTo ssa.Value, res Val, deferred bool) {
	if deferred {
		return // the frame stays on its RunDefers / unwinding step
	}
	if retTo != nil {
		fr.regs[retTo] = res
		if call, ok := retTo.(*ssa.Call); ok {
			if f := call.Call.StaticCallee(); f != nil && f.Name() == "Do" && funcKey(f, x.pkg.Pkg) == "(*sync.Once).Do" {
				if in, has := st.ghost["onceIn"]; has {
					o := st.asTerm(x.normArg(st, x.val(st, fr, call.Call.Args[0])), nil)
					st.ghost["onceIn"] = st.def("onceIn", tStore(in, o, tFalse))
					st.ghost["onceDone"] = st.def("onceDone", tStore(st.ghost["onceDone"], o, tTrue))
				}
			}
			if _, anns := x.siteAnns(st, fr, call.Call.Pos()); len(anns) > 0 {
				env := x.siteEnvCall(st, fr, &call.Call)
				if res != nil {
					env.vars["result"] = res
					if tv, isT := res.(TupleV); isT {
						for k, v := range tv {
							env.vars[fmt.Sprintf("result%d", k)] = v
						}
					}
				}
				for _, a := range anns {
					if a.Kind == "ensure" && !x.assumedOnly(a.Cl) {
						// an intermediate assertion about the call's result: proved here, then available as a lemma
						t := x.evalBool(env, a.Cl.Expr, a.Cl)
						site, _ := x.siteAnns(st, fr, call.Call.Pos())
						x.oblige(st, fmt.Sprintf("%s/at:%s-ensure#%d", x.curFunc, site, a.Cl.Ord), "site-assert", a.Cl.Tags, t, call.Call.Pos(), "after "+site+": "+a.Cl.Src)
					}
					if a.Kind == "assume" {
						// scenario: constrain the callee's result (a witness); the path must stay satisfiable
						t := x.evalBool(env, a.Cl.Expr, a.Cl)
						st.assume(t)
						site, _ := x.siteAnns(st, fr, call.Call.Pos())
						x.addObligation(st, &Obligation{Name: fmt.Sprintf("%s/cover-assume:%s#%d", x.curFunc, site, a.Cl.Ord), Kind: "cover", Tags: a.Cl.Tags, Goal: tFalse, Desc: "scenario witness is attainable, i.e. consistent with the callee's contract (must be sat): " + a.Cl.Src})
					}
					if a.Kind == "set" {
						gs, isGhost := x.ghostSort(a.Ghost)
						if !isGhost {
							x.specFail(a.Cl, "set: %s is not a ghost", a.Ghost)
						}
						var hint types.Type
						if gs == sInt {
							hint = mathInt
						}
						v := x.evalTerm(env, a.Cl.Expr, hint, a.Cl)
						if v.Sort != gs {
							x.specFail(a.Cl, "set %s: sort %s does not match %s", a.Ghost, v.Sort, gs)
						}
						st.ghost[a.Ghost] = st.def("ghost_"+a.Ghost, v)
					}
				}
			}
		}
	}
	fr.pc++
}

func (x *Exec) dispatch(st *State, fr *Frame, i *ssa.Call, cc *ssa.CallCommon, callee Val, args []Val, deferred bool) []*State {
	var retTo ssa.Value
	if i != nil {
		retTo = i
	}
	pos := cc.Pos()
	if cc.IsInvoke() {
		key := ifaceKey(cc, x.pkg.Pkg)
		c := x.specs.Contracts[key]
		if c == nil {
			panic(unsupported{"no interface contract for " + key})
		}
		return x.applyContract(st, fr, retTo, c, key, cc.Signature(), args, pos, deferred, nil)
	}
	switch cv := callee.(type) {
	case BuiltinV:
		return x.execBuiltin(st, fr, retTo, cc, cv.Name, args, pos, deferred)
	case *ssa.Function:
		return x.callFunc(st, fr, retTo, cv, nil, args, pos, deferred, cc.Signature())
	case *ClosureV:
		return x.callFunc(st, fr, retTo, cv.Fn, cv.Bind, args, pos, deferred, cc.Signature())
	case Term:
		if c, ok := x.closures[cv.S]; ok {
			return x.callFunc(st, fr, retTo, c.Fn, c.Bind, args, pos, deferred, cc.Signature())
		}
		if f, ok := x.funcs[cv.S]; ok {
			return x.callFunc(st, fr, retTo, f, nil, args, pos, deferred, cc.Signature())
		}
		c := x.callbackContract(cc.Value.Type())
		if c == nil {
			panic(unsupported{"dynamic call of " + cc.Value.Type().String() + " without a callback contract"})
		}
		// nil function value: calling it panics; obligation that it is not nil
		if x.curContract != nil && x.curContract.NoNilFn {
			st.assume(tNot(tSame(cv, Term{S: "fn_nil", Sort: sFn})))
		} else {
			x.safety(st, fr, "nil-func", tNot(tSame(cv, Term{S: "fn_nil", Sort: sFn})), pos, "called function value is not nil")
		}
		return x.applyContract(st, fr, retTo, c, c.Key, cc.Signature(), append([]Val{cv}, args...), pos, deferred, nil)
	}
	panic(unsupported{fmt.Sprintf("call of %T", callee)})
}

func (x *Exec) callFunc(st *State, fr *Frame, retTo ssa.Value, fn *ssa.Function, bind []Val, args []Val, pos token.Pos, deferred bool, csig *types.Signature) []*State {
	if o := fn.Origin(); o != nil {
		fn = o
	}
	key := funcKey(fn, x.pkg.Pkg)
	if done, more := x.intrinsic(st, fr, retTo, key, fn, args, pos, deferred); done {
		return more
	}
	if key == "(*sync.Once).Do" {
		if in, ok := st.ghost["onceIn"]; ok {
			if cl, isClosure := args[1].(*ClosureV); isClosure {
				o := st.asTerm(x.normArg(st, args[0]), nil)
				// the function may already have run (on this or another goroutine): then Do only waits for it
				other := st.fork()
				ofr := other.top()
				other.ghost["onceDone"] = other.def("onceDone", tStore(other.ghost["onceDone"], o, tTrue))
				other.path = append(other.path, "once:already-done@"+posStr(x.fset, pos))
				x.finishPlain(other, ofr, retTo, deferred)
				// first call: run it inside the once section
				st.ghost["onceIn"] = st.def("onceIn", tStore(in, o, tTrue))
				more := x.callFunc(st, fr, retTo, cl.Fn, cl.Bind, nil, pos, deferred, nil)
				return append(more, other)
			}
		}
	}
	isBound := strings.HasSuffix(fn.Name(), "$bound") || strings.HasSuffix(fn.Name(), "$thunk")
	ckey := key
	if x.curContract != nil {
		if sk, ok := x.curContract.UseScen[key]; ok {
			if x.specs.Contracts[sk] == nil {
				panic(unsupported{"uses-scenario " + sk + ": no such contract"})
			}
			ckey = sk
		}
	}
	if c := x.specs.Contracts[ckey]; c != nil && !isBound && !(len(st.frames) == 1 && false) {
		sig := fn.Signature
		if csig != nil && csig.Results().Len() == sig.Results().Len() {
			sig = csig
		}
		return x.applyContract(st, fr, retTo, c, key, sig, args, pos, deferred, fn)
	}
	if len(fn.Blocks) > 0 && (fn.Pkg == x.pkg || fn.Pkg == nil || fn.Parent() != nil || isBound) {
		if fr.depth >= 6 {
			panic(unsupported{"inlining too deep at " + key + " (recursive function without contract?)"})
		}
		x.inlined[key]++
		nf := &Frame{fn: fn, regs: map[ssa.Value]Val{}, cut: map[*ssa.BasicBlock]*loopCut{}, bind: bind, retTo: retTo, deferred: deferred, depth: fr.depth + 1}
		if len(args) != len(fn.Params) {
			panic(fmt.Sprintf("arity mismatch calling %s: %d args, %d params", key, len(args), len(fn.Params)))
		}
		for k, p := range fn.Params {
			nf.regs[p] = args[k]
		}
		nf.block = fn.Blocks[0]
		st.frames = append(st.frames, nf)
		return nil
	}
	// external function without dependency contract: effect-free on the modelled state, cannot panic, result unconstrained
	x.abstracted[key]++
	var res Val
	esig := fn.Signature
	if csig != nil && csig.Results().Len() == esig.Results().Len() {
		esig = csig
	}
	if esig.Results().Len() == 1 {
		res = st.freshVal(esig.Results().At(0).Type(), "ext_"+fn.Name())
	} else if esig.Results().Len() > 1 {
		res = st.freshVal(esig.Results(), "ext_"+fn.Name())
	}
	x.finish(st, fr, retTo, res, deferred)
	return nil
}

// ---------------------------------------------------------------------------------------------
// Contracts at call sites

func (x *Exec) paramNames(c *Contract, fn *ssa.Function, sig *types.Signature, nargs int) []string {
	if len(c.Params) > 0 {
		return c.Params
	}
	var names []string
	if fn != nil {
		for _, p := range fn.Params {
			names = append(names, p.Name())
		}
		return names
	}
	if sig.Recv() != nil || nargs == sig.Params().Len()+1 {
		names = append(names, "recv")
	}
	for k := 0; k < sig.Params().Len(); k++ {
		n := sig.Params().At(k).Name()
		if n == "" || n == "_" {
			n = fmt.Sprintf("arg%d", k)
		}
		names = append(names, n)
	}
	return names
}

func (x *Exec) resultNames(c *Contract, sig *types.Signature) []string {
	if len(c.Results) > 0 {
		return c.Results
	}
	var names []string
	for k := 0; k < sig.Results().Len(); k++ {
		names = append(names, sig.Results().At(k).Name())
	}
	return names
}

func (x *Exec) applyContract(st *State, fr *Frame, retTo ssa.Value, c *Contract, key string, sig *types.Signature, args []Val, pos token.Pos, deferred bool, fn *ssa.Function) []*State {
	x.usedContracts[key] = true
	preScript := st.script
	names := x.paramNames(c, fn, sig, len(args))
	env := &specEnv{x: x, st: st, vars: map[string]Val{}, pos: token.NoPos, where: "call of " + key}
	for k, n := range names {
		if k < len(args) {
			env.vars[n] = x.normArg(st, args[k])
		}
	}
	if sig != nil {
		env.statics = map[string]types.Type{}
		off := 0
		if sig.Recv() != nil && len(names) > 0 {
			env.statics[names[0]] = sig.Recv().Type()
			off = 1
		}
		for k := 0; k < sig.Params().Len() && k+off < len(names); k++ {
			env.statics[names[k+off]] = sig.Params().At(k).Type()
		}
	}
	for _, un := range c.Uses {
		ue := &specEnv{x: x, st: st, vars: map[string]Val{}, frame: fr, pos: pos, where: "uses " + un}
		for _, p := range fr.fn.Params {
			ue.vars[p.Name()] = fr.regs[p]
		}
		if v, ok := ue.vars[un]; ok {
			if lv, found := x.localByName(ue, un); found {
				v = lv
			}
			env.vars[un] = v
		} else if lv, found := x.localByName(ue, un); found {
			env.vars[un] = lv
		} else {
			for i, fv := range fr.fn.FreeVars {
				if fv.Name() == un {
					// captured variable: the binding is the address of the variable
					env.vars[un] = x.load(st, fr.bind[i], fv.Type().(*types.Pointer).Elem())
				}
			}
			if _, ok := env.vars[un]; !ok {
				panic(unsupported{"callback contract " + key + " uses " + un + " but the caller " + fr.fn.Name() + " has no such variable"})
			}
		}
	}
	site := x.siteName(fr, pos)
	for _, r := range c.Requires {
		if r.Assume {
			continue
		}
		t := x.evalBool(env, r.Expr, r)
		name := fmt.Sprintf("%s/pre:%s#%d@%s", x.curFunc, key, r.Ord, site)
		x.oblige(st, name, "precondition", r.Tags, t, pos, "precondition of "+key+": "+r.Src)
	}
	old := st.snap()
	oldVars := env.vars
	// havoc (a location indexed by the call's result - `modifies published[arr(result)]` - is forgotten once the result
	// exists; on the callee's panicking exits there is no result, and the whole ghost is forgotten instead)
	var resultLocs []string
	for _, loc := range c.Modifies {
		if resultWord.MatchString(loc) {
			resultLocs = append(resultLocs, loc)
			continue
		}
		x.havocLoc(st, env, loc, c)
	}
	// interference by other goroutines while this call blocks: forgotten, and exempt from the caller's frame
	for _, loc := range c.Interf {
		if lv, ok := x.evalLoc(env, loc, c).(FieldPtr); ok {
			x.flattenField(st, lv.Ref, lv.S, lv.SN, lv.Idx, st.interfered)
			st.havocField(lv.Ref, lv.S, lv.SN, lv.Idx)
		} else {
			panic(unsupported{"interference location " + loc})
		}
	}
	// result
	var res Val
	nres := sig.Results().Len()
	wit := x.pendingWitness
	x.pendingWitness = nil
	if wit != nil && nres == 1 {
		res = wit.val
	} else if wit != nil && nres > 1 && len(wit.vals) == nres {
		tv := TupleV{}
		for _, v := range wit.vals {
			tv = append(tv, v)
		}
		res = tv
	} else if c.Pure {
		res = x.pureResult(st, key, sig, args)
	} else if nres == 1 {
		res = st.freshVal(sig.Results().At(0).Type(), "r_"+sanitize(key))
	} else if nres > 1 {
		res = st.freshVal(sig.Results(), "r_"+sanitize(key))
	}
	if isDrawCall(key) {
		if t, ok := res.(Term); ok {
			st.draws = append(st.draws, t.S)
		}
	}
	mkEnv := func(s *State) *specEnv {
		e := &specEnv{x: x, st: s, vars: map[string]Val{}, old: old, oldVars: oldVars, where: "call of " + key, callSite: true, statics: env.statics}
		for k, v := range oldVars {
			e.vars[k] = v
		}
		rn := x.resultNames(c, sig)
		if nres == 1 {
			e.vars["result"] = res
			if rn[0] != "" && rn[0] != "_" {
				e.vars[rn[0]] = res
			}
		} else if nres > 1 {
			for k, v := range res.(TupleV) {
				e.vars[fmt.Sprintf("result%d", k)] = v
				if rn[k] != "" && rn[k] != "_" {
					e.vars[rn[k]] = v
				}
			}
		}
		return e
	}
	var out []*State
	// exceptional outcomes
	for _, pc := range c.Panics {
		ps := st.fork()
		for _, loc := range resultLocs {
			if i := strings.Index(loc, "["); i > 0 {
				x.havocLoc(ps, env, loc[:i], c)
			} else {
				panic(unsupported{"modifies location " + loc + " mentions the result"})
			}
		}
		pfr := ps.top()
		pe := mkEnv(ps)
		pv := ps.fresh("panic_"+sanitize(key), sAny, nil)
		ps.assume(x.panicKind(ps, pv, pc.PKind))
		if c.Callback && x.curContract != nil && x.curContract.CbSkip != "" {
			ps.assume(x.panicKind(ps, pv, "invalidData")) // scenario hypothesis: the callback gives up
		}
		pe.panicVal = &pv
		cond := tTrue
		if !pc.Internal {
			cond = x.evalBool(pe, pc.Expr, pc)
		} else {
			// conjuncts about the callee's own locals (now(x)) give callers nothing to assume; the others do
			for _, part := range splitConj(pc.Expr) {
				if !strings.Contains(exprStr(part), "now(") {
					cond = tAnd(cond, x.evalBool(pe, part, pc))
				}
			}
		}
		if cond.S == "false" {
			continue
		}
		ps.assume(cond)
		ps.path = append(ps.path, fmt.Sprintf("%s:panics(%s)@%s", key, pc.PKind, posStr(x.fset, pos)))
		x.raiseIn(ps, pfr, pv, pos, "panic from "+key)
		if _, anns := x.siteAnns(ps, pfr, pos); len(anns) > 0 {
			for _, a := range anns {
				if a.Kind != "onpanic" {
					continue
				}
				gs, isGhost := x.ghostSort(a.Ghost)
				if !isGhost {
					x.specFail(a.Cl, "onpanic: %s is not a ghost", a.Ghost)
				}
				senv := x.siteEnv(ps, pfr, pos)
				senv.panicVal = &pv
				var hint types.Type
				if gs == sInt {
					hint = mathInt
				}
				v := x.evalTerm(senv, a.Cl.Expr, hint, a.Cl)
				if v.Sort != gs {
					x.specFail(a.Cl, "onpanic %s: sort %s does not match %s", a.Ghost, v.Sort, gs)
				}
				ps.ghost[a.Ghost] = ps.def("ghost_"+a.Ghost, v)
			}
		}
		out = append(out, ps)
	}
	// normal outcome
	if c.Callback && x.curContract != nil && x.curContract.CbSkip != "" {
		st.dead = true // scenario hypothesis: the callback never returns normally
		return out
	}
	ne := mkEnv(st)
	for _, loc := range resultLocs {
		x.havocLoc(st, ne, loc, c)
	}
	dead := false
	for _, en := range c.Ensures {
		if en.Internal {
			continue
		}
		if wit != nil {
			// the witness must satisfy what the callee promises about its result; conjuncts that define the
			// post-value of a ghost the callee modifies are definitional and stay assumptions
			for pi, pe := range splitConj(en.Expr) {
				pt := x.evalBool(ne, pe, en)
				if mentionsModifiedGhost(x, pe, c) {
					st.assume(pt)
					continue
				}
				x.oblige(st, fmt.Sprintf("%s/witness:%s#%d.%d", x.curFunc, wit.site, en.Ord, pi), "witness-admissible", wit.cl.Tags, pt, pos, "scenario witness "+wit.cl.Src+" satisfies the postcondition of "+key+": "+exprStr(pe))
			}
			continue
		}
		t := x.evalBool(ne, en.Expr, en)
		if t.S == "false" {
			dead = true
			break
		}
		st.assume(t)
	}
	if dead {
		st.dead = true
		return out
	}
	if res != nil {
		st.boundRefs(res) // results were allocated no later than now (fresh() results got their number above)
	}
	if len(c.Ensures) > 0 && wit == nil {
		// vacuity guard: the callee's postconditions, as assumed here, must be consistent with the path (a
		// postcondition about a location the callee's modifies clause forgets to list reads "x > x")
		x.addObligation(st, &Obligation{Name: fmt.Sprintf("%s/cover-call:%s@%s", x.curFunc, key, x.siteName(fr, pos)), Kind: "cover", Goal: tFalse, PreScript: preScript, Desc: "the normal return of " + key + " is feasible under its contract wherever the call is reachable (must be sat on some path)"})
	}
	x.finish(st, fr, retTo, res, deferred)
	return out
}

// normArg turns addresses of struct-valued fields/globals into reference terms so that contracts can use them.
func (x *Exec) normArg(st *State, v Val) (res Val) {
	defer func() {
		if r := recover(); r != nil {
			res = v
		}
	}()
	switch a := v.(type) {
	case FieldPtr:
		if _, ok := under(a.S.Field(a.Idx).Type()).(*types.Struct); ok {
			return st.asTerm(a, nil)
		}
	case GlobalPtr:
		gt := a.G.Type().(*types.Pointer).Elem()
		if _, ok := under(gt).(*types.Struct); ok {
			r := st.globalRef(a.G)
			r.Typ = a.G.Type()
			return r
		}
	}
	return v
}

func mentionsModifiedGhost(x *Exec, e ast.Expr, c *Contract) bool {
	found := false
	ast.Inspect(e, func(n ast.Node) bool {
		if id, ok := n.(*ast.Ident); ok {
			if _, isGhost := x.ghostSort(id.Name); isGhost {
				for _, m := range c.Modifies {
					if m == id.Name || strings.HasPrefix(m, id.Name+"[") {
						found = true
					}
				}
			}
		}
		return true
	})
	return found
}

func isDrawCall(key string) bool {
	return key == "bitStream.drawBits"
}

func (x *Exec) pureResult(st *State, key string, sig *types.Signature, args []Val) Val {
	if sig.Results().Len() != 1 {
		panic(unsupported{"pure contract needs exactly one result: " + key})
	}
	rt := sig.Results().At(0).Type()
	rs, ok := x.sortOf(rt)
	if !ok {
		panic(unsupported{"pure result type " + rt.String()})
	}
	var ats []Term
	var asorts []string
	for _, a := range args {
		switch av := a.(type) {
		case *SliceV:
			ats = append(ats, av.Arr, av.Off, av.Len)
			asorts = append(asorts, sRef, sBV(64), sBV(64))
		default:
			t := st.asTerm(a, nil)
			ats = append(ats, t)
			asorts = append(asorts, t.Sort)
		}
	}
	fname := "pure_" + sanitize(key)
	st.declareOnce(fname, "(declare-fun "+fname+" ("+strings.Join(asorts, " ")+") "+rs+")")
	if len(ats) == 0 {
		return Term{S: fname, Sort: rs, Typ: rt}
	}
	return st.def("pure", app(rs, rt, fname, ats...))
}

// panicKind constrains a panic value to a named kind.
func (x *Exec) panicKind(st *State, pv Term, kind string) Term {
	switch kind {
	case "any":
		// any panic value (a panic(nil) is not modelled); Goexit is not a panic
		return tAnd(tNot(tSame(pv, Term{S: "any_nil", Sort: sAny})), tNot(x.panicKind(st, pv, "goexit")))
	case "invalidData", "stopTest":
		tag := fmt.Sprint(x.typeTag(x.namedType(kind)))
		return Term{S: "(and ((_ is any_str) " + pv.S + ") (= (any_str_tag " + pv.S + ") " + tag + "))", Sort: sBool}
	case "testError":
		tag := fmt.Sprint(x.typeTag(types.NewPointer(x.namedType("testError"))))
		return Term{S: "(and ((_ is any_ref) " + pv.S + ") (= (any_ref_tag " + pv.S + ") " + tag + "))", Sort: sBool}
	case "string":
		tag := fmt.Sprint(x.typeTag(types.Typ[types.String]))
		return Term{S: "(and ((_ is any_str) " + pv.S + ") (= (any_str_tag " + pv.S + ") " + tag + "))", Sort: sBool}
	case "goexit":
		// runtime.Goexit (FailNow/SkipNow on a real testing.TB): unwinds running deferred calls; not recoverable
		return Term{S: "(and ((_ is any_other) " + pv.S + ") (= (any_other_id " + pv.S + ") (- 1)))", Sort: sBool}
	case "other":
		// anything that is neither invalidData nor stopTest
		return tAnd(tNot(tSame(pv, Term{S: "any_nil", Sort: sAny})), tNot(x.panicKind(st, pv, "goexit")), tNot(x.panicKind(st, pv, "invalidData")), tNot(x.panicKind(st, pv, "stopTest")))
	case "notInvalidData":
		return tAnd(tNot(tSame(pv, Term{S: "any_nil", Sort: sAny})), tNot(x.panicKind(st, pv, "goexit")), tNot(x.panicKind(st, pv, "invalidData")))
	}
	panic(unsupported{"unknown panic kind " + kind})
}

func (x *Exec) namedType(name string) types.Type {
	obj := x.pkg.Pkg.Scope().Lookup(name)
	if obj == nil {
		panic(unsupported{"type " + name + " not found"})
	}
	return obj.Type()
}

// havocLoc forgets the value of one modifies-location in the callee's environment.
var resultWord = regexp.MustCompile(`\bresult[0-9]*\b`)

func (x *Exec) havocLoc(st *State, env *specEnv, loc string, c *Contract) {
	if loc == "heap" {
		x.havocHeapAtCall(st)
		return
	}
	if loc == "*" {
		st.havocAll()
		for _, g := range x.specs.Ghosts {
			st.ghost[g.Name] = st.fresh("ghost_"+g.Name, g.Sort, nil)
		}
		return
	}
	if s, ok := x.ghostSort(loc); ok {
		st.ghost[loc] = st.fresh("ghost_"+loc, s, nil)
		return
	}
	lv := x.evalLoc(env, loc, c)
	switch l := lv.(type) {
	case FieldPtr:
		st.havocField(l.Ref, l.S, l.SN, l.Idx)
	case elemsLoc:
		st.havocElems(l.arr, l.elem)
	case ghostIdxLoc:
		arr := st.ghost[l.name]
		fr := st.fresh("ghost_"+l.name, arrayElemSort(arr.Sort), nil)
		st.ghost[l.name] = st.def("ghost_"+l.name, tStore(arr, l.idx, fr))
	case wholeStructLoc:
		for i := 0; i < l.S.NumFields(); i++ {
			st.havocField(l.Ref, l.S, l.SN, i)
		}
	case mapLoc:
		x.havocKeyPrefix(st, "map:")
	case streamLoc:
		// only the object of the dynamic type the interface value actually holds is affected
		for _, tn := range []string{"bufBitStream", "randomBitStream"} {
			nt := x.namedType(tn)
			su := under(nt).(*types.Struct)
			cond := tTrue
			if l.iface.S != "" {
				tag := fmt.Sprint(x.typeTag(types.NewPointer(nt)))
				cond = st.def("isStream", Term{S: "(and ((_ is any_ref) " + l.iface.S + ") (= (any_ref_tag " + l.iface.S + ") " + tag + "))", Sort: sBool})
			}
			rb := st.embRef(tn, "recordedBits", l.ref)
			rsu := under(x.namedType("recordedBits")).(*types.Struct)
			for i := 0; i < rsu.NumFields(); i++ {
				if sl, ok := under(rsu.Field(i).Type()).(*types.Slice); ok {
					cur := st.loadField(nil, rb, rsu, "recordedBits", i).(*SliceV)
					keys, sorts, _ := st.elemKeys(sl.Elem())
					for k := range keys {
						E := st.elemArr(nil, keys[k], sorts[k])
						fr := st.fresh("hv_"+keys[k], sArr(sBV(64), sorts[k]), nil)
						st.x.symCounter++
						name := fmt.Sprintf("E_%s!%d", sanitize(keys[k]), st.x.symCounter)
						st.emit("(define-fun " + name + " () " + E.Sort + " " + tIte(cond, tStore(E, cur.Arr, fr), E).S + ")")
						st.heap[keys[k]] = Term{S: name, Sort: E.Sort}
					}
				}
			}
			for i := 0; i < su.NumFields(); i++ {
				oldv := st.loadField(nil, l.ref, su, tn, i)
				nv := st.freshVal(su.Field(i).Type(), "hv_"+tn+"_"+su.Field(i).Name())
				mv, ok := x.mergeVal(st, cond, nv, oldv, "hvc")
				if !ok {
					mv = nv
				}
				st.storeField(l.ref, su, tn, i, mv)
			}
		}
	default:
		panic(unsupported{fmt.Sprintf("modifies location %q (%T)", loc, lv)})
	}
}

// ---------------------------------------------------------------------------------------------
// Returns, panics, defers

func (x *Exec) doReturn(st *State, fr *Frame, res Val) []*State {
	if len(st.frames) == 1 {
		x.checkEnsures(st, fr, res)
		st.dead = true
		return nil
	}
	st.frames = st.frames[:len(st.frames)-1]
	parent := st.top()
	x.finish(st, parent, fr.retTo, res, fr.deferred)
	return nil
}

func (x *Exec) raise(st *State, pv Term, pos token.Pos, why string) []*State {
	x.raiseIn(st, st.top(), pv, pos, why)
	return nil
}

func (x *Exec) raiseIn(st *State, fr *Frame, pv Term, pos token.Pos, why string) {
	p := pv
	st.panicking = &p
	st.panicSite = x.siteName(fr, pos)
	st.panicWhy = why + " at " + posStr(x.fset, pos)
	fr.unwinding = true
	fr.runningDefers = false
}

func (x *Exec) stepDefers(st *State, fr *Frame) []*State {
	if n := len(fr.defers); n > 0 {
		d := fr.defers[n-1]
		fr.defers = fr.defers[:n-1]
		// `at <site> assert` on a deferred call speaks about the moment the call runs (locals, ghosts, inpanic); the
		// call's arguments were evaluated at the defer statement and are not available under argK here
		if site, anns := x.siteAnns(st, fr, d.common.Pos()); len(anns) > 0 {
			env := x.siteEnv(st, fr, d.common.Pos())
			for _, a := range anns {
				if a.Kind == "assert" && !x.assumedOnly(a.Cl) {
					t := x.evalBool(env, a.Cl.Expr, a.Cl)
					x.oblige(st, fmt.Sprintf("%s/at:%s-assert#%d", x.curFunc, site, a.Cl.Ord), "site-assert", a.Cl.Tags, t, d.common.Pos(), "before deferred "+site+": "+a.Cl.Src)
				}
			}
		}
		return x.dispatch(st, fr, nil, d.common, d.callee, d.args, true)
	}
	if fr.runningDefers {
		fr.runningDefers = false
		fr.pc++
		return nil
	}
	// unwinding
	if st.panicking == nil {
		fr.unwinding = false
		if fr.fn.Recover != nil {
			fr.prev = fr.block
			fr.block = fr.fn.Recover
			fr.pc = 0
			return nil
		}
		var res Val
		rs := fr.fn.Signature.Results()
		if rs.Len() == 1 {
			res = st.zeroVal(rs.At(0).Type())
		} else if rs.Len() > 1 {
			res = st.zeroVal(rs)
		}
		return x.doReturn(st, fr, res)
	}
	if len(st.frames) == 1 {
		x.checkPanicExit(st, fr)
		st.dead = true
		return nil
	}
	st.frames = st.frames[:len(st.frames)-1]
	parent := st.top()
	parent.unwinding = true
	parent.runningDefers = false
	return nil
}

// ---------------------------------------------------------------------------------------------
// Builtins

func (x *Exec) execBuiltin(st *State, fr *Frame, retTo ssa.Value, cc *ssa.CallCommon, name string, args []Val, pos token.Pos, deferred bool) []*State {
	var res Val
	switch name {
	case "len", "cap":
		switch a := args[0].(type) {
		case *SliceV:
			if name == "len" {
				res = retyped(a.Len, types.Typ[types.Int])
			} else {
				res = retyped(a.Cap, types.Typ[types.Int])
			}
		case Term:
			switch {
			case a.Sort == sStr:
				res = Term{S: "(str_len " + a.S + ")", Sort: sBV(64), Typ: types.Typ[types.Int]}
			case a.S == "ref_nil":
				res = retyped(bv64(0), types.Typ[types.Int])
			case a.Sort == sRef:
				// map
				mt, ok := under(cc.Args[0].Type()).(*types.Map)
				if !ok {
					panic(unsupported{"len of " + cc.Args[0].Type().String()})
				}
				_, _, ln, _, _ := x.mapKeys(st, mt)
				l := st.heapRead(nil, ln, sBV(64), a, types.Typ[types.Int])
				st.assume(app(sBool, nil, "bvsle", bv64(0), l))
				res = l
			default:
				if at, ok := under(cc.Args[0].Type()).(*types.Array); ok {
					res = retyped(bv64(uint64(at.Len())), types.Typ[types.Int])
				} else {
					panic(unsupported{"len of sort " + a.Sort})
				}
			}
		case ArrPtr:
			res = retyped(bv64(uint64(a.N)), types.Typ[types.Int])
		default:
			panic(unsupported{fmt.Sprintf("len of %T", args[0])})
		}
	case "append":
		res = x.execAppend(st, fr, cc, args, pos)
	case "copy":
		res = x.execCopy(st, fr, cc, args, pos)
	case "recover":
		// non-nil only when called directly by a deferred function while its caller is unwinding
		if fr.deferred && len(st.frames) >= 2 && st.frames[len(st.frames)-2].unwinding && st.panicking != nil {
			// Goexit is not a panic: recover() returns nil for it and unwinding continues
			isGoexit := st.def("isgoexit", x.panicKind(st, *st.panicking, "goexit"))
			res = st.def("recovered", tIte(isGoexit, Term{S: "any_nil", Sort: sAny}, *st.panicking))
			if isGoexit.S == "false" {
				st.panicking = nil
			} else if isGoexit.S != "true" {
				// symbolic: split
				other := st.fork()
				other.assume(isGoexit)
				ofr := other.top()
				x.finish(other, ofr, retTo, Term{S: "any_nil", Sort: sAny}, deferred)
				st.assume(tNot(isGoexit))
				res = *st.panicking
				st.panicking = nil
				x.finish(st, fr, retTo, res, deferred)
				return []*State{other}
			}
		} else {
			res = Term{S: "any_nil", Sort: sAny}
		}
	case "print", "println":
	case "delete":
		mt := under(cc.Args[0].Type()).(*types.Map)
		has, _, ln, ks, _ := x.mapKeys(st, mt)
		m := st.asTerm(args[0], nil)
		k := st.asTerm(args[1], mt.Key())
		hasArr := st.heapRead(nil, has, sArr(ks, sBool), m, nil)
		present := tSelect(hasArr, k)
		oldLen := st.heapRead(nil, ln, sBV(64), m, nil)
		st.heapWrite(ln, sBV(64), m, st.def("maplen", tIte(present, app(sBV(64), nil, "bvsub", oldLen, bv64(1)), oldLen)))
		st.heapWrite(has, sArr(ks, sBool), m, st.def("maphas", tStore(hasArr, k, tFalse)))
	case "ssa:wrapnilchk":
		res = args[0]
	case "ssa:deferstack":
		res = Term{S: "ref_nil", Sort: sRef}
	default:
		panic(unsupported{"builtin " + name})
	}
	x.finish(st, fr, retTo, res, deferred)
	return nil
}

func retyped(t Term, typ types.Type) Term { t.Typ = typ; return t }

func (x *Exec) execAppend(st *State, fr *Frame, cc *ssa.CallCommon, args []Val, pos token.Pos) Val {
	et := under(cc.Args[0].Type()).(*types.Slice).Elem()
	s := st.asSlice(args[0], et)
	var t *SliceV
	if tv, ok := args[1].(Term); ok && tv.Sort == sStr {
		panic(unsupported{"append(bytes, string...)"})
	}
	t = st.asSlice(args[1], et)
	newLen := st.def("applen", app(sBV(64), nil, "bvadd", s.Len, t.Len))
	inplace := st.def("inplace", app(sBool, nil, "bvsle", newLen, s.Cap))
	x.publishedCheck(st, fr, s.Arr, tAnd(inplace, app(sBool, nil, "bvslt", bv64(0), t.Len)), nil)
	rf := st.freshRef("app")
	R := st.def("appref", tIte(inplace, s.Arr, rf))
	off := st.def("appoff", tIte(inplace, s.Off, bv64(0)))
	newCapF := st.fresh("appcap", sBV(64), nil)
	st.assume(tAnd(app(sBool, nil, "bvsle", newLen, newCapF), app(sBool, nil, "bvslt", newCapF, Term{S: "#x1000000000000000", Sort: sBV(64)})))
	newCap := st.def("appcap", tIte(inplace, s.Cap, newCapF))
	keys, sorts, _ := st.elemKeys(et)
	for k := range keys {
		E := st.elemArr(nil, keys[k], sorts[k])
		na := st.fresh("appdata", sArr(sBV(64), sorts[k]), nil)
		// content axiom over all indices
		oldS := tSelect(E, s.Arr)
		oldT := tSelect(E, t.Arr)
		i := Term{S: "i!", Sort: sBV(64)}
		base := app(sBV(64), nil, "bvadd", off, s.Len) // first appended absolute index
		inApp := tAnd(app(sBool, nil, "bvsle", base, i), app(sBool, nil, "bvslt", i, app(sBV(64), nil, "bvadd", base, t.Len)))
		fromT := tSelect(oldT, app(sBV(64), nil, "bvadd", t.Off, app(sBV(64), nil, "bvsub", i, base)))
		inOld := tAnd(app(sBool, nil, "bvsle", off, i), app(sBool, nil, "bvslt", i, base))
		// in place: untouched cells keep the old content of the same array; otherwise: copy of s's cells
		fromS := tIte(inplace, tSelect(oldS, i), tSelect(oldS, app(sBV(64), nil, "bvadd", s.Off, app(sBV(64), nil, "bvsub", i, off))))
		rest := tIte(inplace, tSelect(oldS, i), tSelect(na, i))
		body := tEq2(tSelect(na, i), tIte(inApp, fromT, tIte(inOld, fromS, rest)))
		st.emit("(assert (forall ((i! (_ BitVec 64))) (! " + body.S + " :pattern ((select " + na.S + " i!)))))")
		st.x.symCounter++
		name := fmt.Sprintf("E_%s!%d", sanitize(keys[k]), st.x.symCounter)
		st.emit("(define-fun " + name + " () " + E.Sort + " " + tStore(E, R, na).S + ")")
		st.heap[keys[k]] = Term{S: name, Sort: E.Sort}
	}
	return &SliceV{Arr: R, Off: off, Len: newLen, Cap: newCap, Elem: et}
}

func tEq2(a, b Term) Term { return Term{S: "(= " + a.S + " " + b.S + ")", Sort: sBool} }

func (x *Exec) execCopy(st *State, fr *Frame, cc *ssa.CallCommon, args []Val, pos token.Pos) Val {
	et := under(cc.Args[0].Type()).(*types.Slice).Elem()
	d := st.asSlice(args[0], et)
	if tv, ok := args[1].(Term); ok && tv.Sort == sStr {
		panic(unsupported{"copy(bytes, string)"})
	}
	s := st.asSlice(args[1], et)
	n := st.def("copyn", tIte(app(sBool, nil, "bvsle", d.Len, s.Len), d.Len, s.Len))
	keys, sorts, _ := st.elemKeys(et)
	for k := range keys {
		E := st.elemArr(nil, keys[k], sorts[k])
		na := st.fresh("copydata", sArr(sBV(64), sorts[k]), nil)
		oldD := tSelect(E, d.Arr)
		oldS := tSelect(E, s.Arr)
		i := Term{S: "i!", Sort: sBV(64)}
		in := tAnd(app(sBool, nil, "bvsle", d.Off, i), app(sBool, nil, "bvslt", i, app(sBV(64), nil, "bvadd", d.Off, n)))
		from := tSelect(oldS, app(sBV(64), nil, "bvadd", s.Off, app(sBV(64), nil, "bvsub", i, d.Off)))
		body := tEq2(tSelect(na, i), tIte(in, from, tSelect(oldD, i)))
		st.emit("(assert (forall ((i! (_ BitVec 64))) (! " + body.S + " :pattern ((select " + na.S + " i!)))))")
		st.x.symCounter++
		name := fmt.Sprintf("E_%s!%d", sanitize(keys[k]), st.x.symCounter)
		st.emit("(define-fun " + name + " () " + E.Sort + " " + tStore(E, d.Arr, na).S + ")")
		st.heap[keys[k]] = Term{S: name, Sort: E.Sort}
	}
	return retyped(n, types.Typ[types.Int])
}

// ---------------------------------------------------------------------------------------------
// Intrinsics: library functions with exact, built-in semantics

func (x *Exec) intrinsic(st *State, fr *Frame, retTo ssa.Value, key string, fn *ssa.Function, args []Val, pos token.Pos, deferred bool) (bool, []*State) {
	var res Val
	T := func(k int) Term { return st.asTerm(args[k], nil) }
	f64 := types.Typ[types.Float64]
	switch key {
	case "math.Float64bits":
		b := st.fresh("f64bits", sBV(64), types.Typ[types.Uint64])
		st.assume(tSame(Term{S: "((_ to_fp 11 53) " + b.S + ")", Sort: sF64}, T(0)))
		res = b
	case "math.Float64frombits":
		res = st.def("frombits", Term{S: "((_ to_fp 11 53) " + T(0).S + ")", Sort: sF64, Typ: f64})
	case "math.Float32bits":
		b := st.fresh("f32bits", sBV(32), types.Typ[types.Uint32])
		st.assume(tSame(Term{S: "((_ to_fp 8 24) " + b.S + ")", Sort: sF32}, T(0)))
		res = b
	case "math.Float32frombits":
		res = st.def("frombits", Term{S: "((_ to_fp 8 24) " + T(0).S + ")", Sort: sF32, Typ: types.Typ[types.Float32]})
	case "math.Max", "math.Min":
		a, b := T(0), T(1)
		isMax := key == "math.Max"
		inf := "(_ +oo 11 53)"
		cmpf := "fp.gt"
		if !isMax {
			inf = "(_ -oo 11 53)"
			cmpf = "fp.lt"
		}
		nan := "(_ NaN 11 53)"
		bothZero := "(and (fp.isZero " + a.S + ") (fp.isZero " + b.S + "))"
		// Go: Max(+0,-0)=+0, Min(+0,-0)=-0
		var zeroPick string
		if isMax {
			zeroPick = "(ite (fp.isNegative " + a.S + ") " + b.S + " " + a.S + ")"
		} else {
			zeroPick = "(ite (fp.isNegative " + a.S + ") " + a.S + " " + b.S + ")"
		}
		s := "(ite (or (= " + a.S + " " + inf + ") (= " + b.S + " " + inf + ")) " + inf +
			" (ite (or (fp.isNaN " + a.S + ") (fp.isNaN " + b.S + ")) " + nan +
			" (ite " + bothZero + " " + zeroPick +
			" (ite (" + cmpf + " " + a.S + " " + b.S + ") " + a.S + " " + b.S + "))))"
		res = st.def("fminmax", Term{S: s, Sort: sF64, Typ: f64})
	case "math.Ceil":
		res = st.def("ceil", Term{S: "(fp.roundToIntegral RTP " + T(0).S + ")", Sort: sF64, Typ: f64})
	case "math.Floor":
		res = st.def("floor", Term{S: "(fp.roundToIntegral RTN " + T(0).S + ")", Sort: sF64, Typ: f64})
	case "math.Trunc":
		res = st.def("trunc", Term{S: "(fp.roundToIntegral RTZ " + T(0).S + ")", Sort: sF64, Typ: f64})
	case "math.Abs":
		res = st.def("abs", Term{S: "(fp.abs " + T(0).S + ")", Sort: sF64, Typ: f64})
	case "math.IsNaN":
		res = Term{S: "(fp.isNaN " + T(0).S + ")", Sort: sBool, Typ: types.Typ[types.Bool]}
	case "math.Signbit":
		res = Term{S: "(fp.isNegative " + T(0).S + ")", Sort: sBool, Typ: types.Typ[types.Bool]}
	case "math.Log1p":
		res = st.def("log1p", Term{S: "(log1p " + T(0).S + ")", Sort: sF64, Typ: f64})
		x.abstracted["math.Log1p (uninterpreted + axioms)"]++
	case "bits.Len64":
		res = st.def("len64", Term{S: "(len64 " + T(0).S + ")", Sort: sBV(64), Typ: types.Typ[types.Int]})
	case "bits.RotateLeft64":
		k := T(1)
		var n int
		if _, err := fmt.Sscanf(k.S, "#x%x", &n); err != nil {
			panic(unsupported{"RotateLeft64 with non-constant count"})
		}
		n = ((n % 64) + 64) % 64
		res = st.def("rotl", Term{S: fmt.Sprintf("((_ rotate_left %d) %s)", n, T(0).S), Sort: sBV(64), Typ: types.Typ[types.Uint64]})
	case "(binary.littleEndian).Uint64":
		b := st.asSlice(args[1], types.Typ[types.Byte])
		x.safety(st, fr, "bounds", app(sBool, nil, "bvsle", bv64(8), b.Len), pos, "LittleEndian.Uint64 needs 8 bytes")
		keys, sorts, _ := st.elemKeys(types.Typ[types.Byte])
		E := tSelect(st.elemArr(nil, keys[0], sorts[0]), b.Arr)
		parts := ""
		for j := 7; j >= 0; j-- {
			parts += " " + tSelect(E, app(sBV(64), nil, "bvadd", b.Off, bv64(uint64(j)))).S
		}
		res = st.def("le64", Term{S: "(concat" + parts + ")", Sort: sBV(64), Typ: types.Typ[types.Uint64]})
	case "utf8.RuneLen":
		r := T(0)
		c := func(v uint64) string { return bvConst(v, 32) }
		s := "(ite (bvslt " + r.S + " " + c(0) + ") #xffffffffffffffff" +
			" (ite (bvsle " + r.S + " " + c(0x7f) + ") #x0000000000000001" +
			" (ite (bvsle " + r.S + " " + c(0x7ff) + ") #x0000000000000002" +
			" (ite (and (bvsle " + c(0xd800) + " " + r.S + ") (bvsle " + r.S + " " + c(0xdfff) + ")) #xffffffffffffffff" +
			" (ite (bvsle " + r.S + " " + c(0xffff) + ") #x0000000000000003" +
			" (ite (bvsle " + r.S + " " + c(0x10ffff) + ") #x0000000000000004 #xffffffffffffffff))))))"
		res = st.def("runelen", Term{S: s, Sort: sBV(64), Typ: types.Typ[types.Int]})
	default:
		return false, nil
	}
	x.finish(st, fr, retTo, res, deferred)
	return true, nil
}

// havocHeapAtCall forgets the whole heap for a callee with `modifies heap`, except the boxes of local variables of
// the active frames that no other code can write: a variable that escapes only into function literals which read it
// (the usual `defer func() { ... s.x ... }()`) lives in a box nobody but its own function stores to.
func (x *Exec) havocHeapAtCall(st *State) { x.havocHeapKeepBoxes(st, nil) }

// havocHeapKeepBoxes: as above; variables in `stored` (assigned inside the loop being cut) are forgotten too.
func (x *Exec) havocHeapKeepBoxes(st *State, stored map[*ssa.Alloc]bool) {
	type kept struct {
		ref Term
		typ types.Type
		val Val
	}
	var keep []kept
	for _, fr := range st.frames {
		for _, a := range sortedRegs(fr.regs) {
			al, ok := a.(*ssa.Alloc)
			if !ok || !al.Heap || !x.privateBox(al) || stored[al] {
				continue
			}
			r, isT := fr.regs[al].(Term)
			if !isT || r.Sort != sRef {
				continue
			}
			et := al.Type().(*types.Pointer).Elem()
			if _, isSlice := under(et).(*types.Slice); isSlice {
				continue
			}
			if _, ok := x.sortOf(et); !ok {
				continue
			}
			func() {
				defer func() { recover() }()
				keep = append(keep, kept{r, et, st.loadAt(nil, boxKey(et), r, et, nil)})
			}()
		}
	}
	st.havocAll()
	for _, k := range keep {
		st.storeAt(boxKey(k.typ), k.ref, k.typ, k.val, nil)
	}
}

// privateBox: every use of the variable's address is a load, a store *to* it by its own function, or a capture by a
// function literal that (recursively) only loads it - or, when the literal is used for nothing but a defer statement
// of that function, loads it or stores to it.
func (x *Exec) privateBox(al *ssa.Alloc) bool {
	if v, ok := x.privBox[al]; ok {
		return v
	}
	if x.privBox == nil {
		x.privBox = map[*ssa.Alloc]bool{}
	}
	var readOnly func(v ssa.Value, own bool) bool
	readOnly = func(v ssa.Value, own bool) bool {
		refs := v.Referrers()
		if refs == nil {
			return false
		}
		for _, in := range *refs {
			switch n := in.(type) {
			case *ssa.UnOp:
				if n.Op != token.MUL || n.X != v {
					return false
				}
			case *ssa.Store:
				if !own || n.Addr != v || n.Val == v {
					return false
				}
			case *ssa.DebugRef:
			case *ssa.MakeClosure:
				fn, ok := n.Fn.(*ssa.Function)
				if !ok {
					return false
				}
				// a literal that is only ever deferred by its own function runs under that function's control and
				// nowhere else: it may store to the variable as well
				deferredOnly := n.Referrers() != nil
				if deferredOnly {
					for _, u := range *n.Referrers() {
						switch d := u.(type) {
						case *ssa.Defer:
							if d.Call.Value != n {
								deferredOnly = false
							}
							for _, a := range d.Call.Args {
								if a == n {
									deferredOnly = false
								}
							}
						case *ssa.DebugRef:
						default:
							deferredOnly = false
						}
					}
				}
				for i, b := range n.Bindings {
					if b == v {
						if i >= len(fn.FreeVars) || !readOnly(fn.FreeVars[i], deferredOnly) {
							return false
						}
					}
				}
			default:
				return false
			}
		}
		return true
	}
	res := readOnly(al, true)
	x.privBox[al] = res
	return res
}
