package main

import "fmt"

func cmdCheck(prop, tier string) int {
	fmt.Println("not implemented yet")
	return 2
}

func cmdReplay(path string) int {
	fmt.Println("not implemented yet")
	return 2
}
