package main

import (
	"encoding/json"
	"fmt"
	"os"
	"path/filepath"
	"sort"
	"strconv"
	"strings"
	"time"
)

type knownFinding struct {
	Kind        string `json:"kind"` // finding | fixed
	Property    string `json:"property"`
	Obligation  string `json:"obligation"`
	Witness     string `json:"witness,omitempty"`
	Commit      string `json:"commit,omitempty"`
	Description string `json:"description"`
}

type knownFile struct {
	Findings []knownFinding `json:"findings"`
}

func loadKnown() knownFile {
	var k knownFile
	data, err := os.ReadFile(filepath.Join(verifDir, "known_findings.json"))
	if err == nil {
		_ = json.Unmarshal(data, &k)
	}
	return k
}

type oblSummary struct {
	Name      string
	Kind      string
	Instances int
	OK        bool
	Verdict   string
	Solver    string
	MaxTime   float64
	Worst     *Obligation
	Desc      string
	Tags      []string
	coverSat  bool
}

func summarize(obls []*Obligation) []*oblSummary {
	byName := map[string]*oblSummary{}
	var order []*oblSummary
	for _, o := range obls {
		s := byName[o.Name]
		if s == nil {
			s = &oblSummary{Name: o.Name, Kind: o.Kind, OK: true, Desc: o.Desc, Tags: o.Tags}
			byName[o.Name] = s
			order = append(order, s)
		}
		s.Instances++
		good := o.Res.Verdict == "unsat"
		if o.Kind == "cover" {
			good = o.Res.Verdict == "sat"
			if good {
				s.coverSat = true
			}
		}
		if good {
			if s.Solver == "" {
				s.Solver = o.Res.Solver
			}
		} else {
			// prefer a sat instance (with model) as the representative failure
			if s.OK || (s.Worst != nil && s.Worst.Res.Verdict != "sat" && o.Res.Verdict == "sat") {
				s.Worst = o
				s.Verdict = o.Res.Verdict
			}
			s.OK = false
		}
		if o.Res.Time > s.MaxTime {
			s.MaxTime = o.Res.Time
		}
	}
	// a cover is fine when at least one of its instances (paths) is satisfiable
	for _, s := range order {
		if s.Kind == "cover" && s.coverSat {
			s.OK = true
		}
	}
	return order
}

func cmdCheck(prop, tier string) int {
	start := time.Now()
	loadPropNotes()
	if prop == "" {
		fmt.Println("MACHINERY: -property required")
		return 2
	}
	seed := 0
	if s := os.Getenv("VERIF_SEED"); s != "" {
		seed, _ = strconv.Atoi(s)
	}
	cfg := runCfg{tier: tier, timeoutMs: 240000, jobs: 5}
	if s := os.Getenv("GOWP_TIMEOUT_MS"); s != "" { // development only: shorter solver budget while iterating on contracts
		if v, err := strconv.Atoi(s); err == nil && v > 0 {
			cfg.timeoutMs = v
		}
	}
	if tier == "thorough" {
		cfg.timeoutMs = 600000
		cfg.allSolver = true
		cfg.jobs = 5
	}
	s, err := newSession(prop)
	if err != nil {
		fmt.Println("MACHINERY:", err)
		return 2
	}
	x := s.x
	x.tier = tier
	var keys []string
	var bindErrs []string
	for _, k := range s.specs.Order {
		c := s.specs.Contracts[k]
		if c.Dep || c.Callback || !c.hasTag(prop) {
			continue
		}
		if c.Trusted != "" && c.Captures == nil && c.NoStore == nil {
			continue
		}
		fk := k
		if i := strings.Index(k, "@"); i >= 0 {
			fk = k[:i]
		}
		if x.lookupFunc(fk) == nil {
			if strings.Contains(k, ".") && !strings.HasPrefix(k, "(") {
				continue // interface contract
			}
			bindErrs = append(bindErrs, "cannot bind contract: function "+k+" not found in /repo")
			continue
		}
		keys = append(keys, k)
	}
	errs := append(bindErrs, s.verifyFuncs(keys)...)
	// Proof-tree closure (opt-in, GOWP_CLOSURE=1): a property's proof uses the contracts of the callees of its
	// functions; with the option those callees (and theirs) are verified here too, with all their clauses, whatever
	// property they are tagged with. Off by default: it makes the check of one property report violations of
	// clauses that belong to another (a change that breaks only C10 would be reported by the check of C16 too).
	if os.Getenv("GOWP_CLOSURE") != "" {
		done := map[string]bool{}
		for _, k := range keys {
			done[k] = true
		}
		for round := 0; round < 8; round++ {
			var more []string
			for _, k := range sortedKeys(x.usedContracts) {
				c := s.specs.Contracts[k]
				if done[k] || c == nil || c.Dep || c.Callback || c.Trusted != "" || x.lookupFunc(k) == nil {
					continue
				}
				done[k] = true
				more = append(more, k)
			}
			if len(more) == 0 {
				break
			}
			save := x.onlyTag
			x.onlyTag = ""
			errs = append(errs, s.verifyFuncs(more)...)
			x.onlyTag = save
			keys = append(keys, more...)
		}
	}
	// lemmas
	lemmaObls := x.lemmaObligations(prop)
	all := append(append([]*Obligation(nil), x.obls...), lemmaObls...)
	known := loadKnown()
	cfg.short = map[string]bool{}
	for _, k := range known.Findings {
		if k.Kind == "finding" && k.Property == prop {
			cfg.short[k.Obligation] = true
		}
	}
	t0 := time.Now()
	discharge(all, cfg)
	solveWall := time.Since(t0).Seconds()
	sums := summarize(all)

	outDir := filepath.Join(verifDir, "out", prop)
	os.MkdirAll(outDir, 0o755)

	nObl, nDis, nCover, violations, knownHits := 0, 0, 0, 0, 0
	backends := map[string]int{}
	solverTime := 0.0
	var slow []map[string]any
	var samples []map[string]any
	var violLines, knownLines []string
	var machinery []string
	for _, o := range all {
		solverTime += o.Res.Time
	}
	// a failed obligation is assumed from there on (assert, then assume): covers of a function with a failing
	// obligation say nothing about vacuity and are not judged
	failingFunc := map[string]bool{}
	funcOf := func(n string) string {
		if i := strings.Index(n, "/"); i >= 0 {
			return n[:i]
		}
		return n
	}
	for _, sm := range sums {
		if sm.Kind != "cover" && !sm.OK {
			failingFunc[funcOf(sm.Name)] = true
		}
	}
	for _, sm := range sums {
		if sm.Kind == "cover" && !strings.Contains(sm.Name, "/cover-assume:") {
			nCover++
			if !sm.OK && !failingFunc[funcOf(sm.Name)] {
				machinery = append(machinery, fmt.Sprintf("vacuity guard failed: %s is %s (contradictory precondition or assumptions?)", sm.Name, sm.Verdict))
			}
			continue
		}
		// an unattainable scenario witness is a violated reachability obligation, not a machinery problem
		nObl++
		if sm.OK {
			nDis++
			backends[sm.Solver]++
		} else {
			if sm.Verdict == "error" {
				machinery = append(machinery, fmt.Sprintf("solver error on %s: %s", sm.Name, firstLines(sm.Worst.Res.Raw, 3)))
				continue
			}
			if sm.Kind == "unmodelled" {
				machinery = append(machinery, fmt.Sprintf("%s: %s (reachable: the function is outside the modelled subset)", sm.Name, sm.Desc))
				continue
			}
			// known finding?
			matched := false
			for _, k := range known.Findings {
				if k.Kind == "finding" && k.Property == prop && k.Obligation == sm.Name {
					knownLines = append(knownLines, fmt.Sprintf("KNOWN-FINDING: property=%s %s: %s", prop, sm.Name, k.Description))
					matched = true
					knownHits++
					break
				}
			}
			if !matched {
				violations++
				rp := filepath.Join(outDir, sanitize(sm.Name)+".replay")
				found := writeReplay(rp, prop, sm, x)
				line := fmt.Sprintf("VIOLATION property=%s replay=%s", prop, rp)
				if !found {
					line += " no-failing-input-found"
				}
				violLines = append(violLines, line)
			}
		}
		slow = append(slow, map[string]any{"obligation": sm.Name, "time_s": round3(sm.MaxTime), "instances": sm.Instances})
	}
	sort.Slice(slow, func(i, j int) bool { return slow[i]["time_s"].(float64) > slow[j]["time_s"].(float64) })
	if len(slow) > 8 {
		slow = slow[:8]
	}
	for i, sm := range sums {
		if len(samples) >= 6 {
			break
		}
		if sm.Kind == "cover" || (i%7 != 0 && len(sums) > 12) {
			continue
		}
		samples = append(samples, map[string]any{"obligation": sm.Name, "kind": sm.Kind, "what": sm.Desc, "instances": sm.Instances, "verdict": verdictWord(sm), "solver": sm.Solver, "time_s": round3(sm.MaxTime)})
	}
	for _, e := range errs {
		machinery = append(machinery, e)
	}

	// assumptions, collected mechanically
	var assumptions []string
	assumptions = append(assumptions, "the VC generator gowp (Go semantics over go/ssa, /verif/gowp) and the SMT solvers are trusted")
	assumptions = append(assumptions, "int, uint and uintptr are 64 bits wide (the only platform present)")
	assumptions = append(assumptions, "memory exhaustion, stack overflow and nil-pointer dereferences are not modelled")
	axSeen := map[string]bool{}
	for _, o := range all {
		body := strings.Join(o.Script.lines(), "\n")
		for _, a := range axiomsUsed(body + o.Goal.S) {
			if !axSeen[a] {
				axSeen[a] = true
				assumptions = append(assumptions, "axiom "+a)
			}
		}
	}
	var trusted []string
	for _, k := range sortedKeys(x.usedContracts) {
		c := s.specs.Contracts[k]
		if c == nil {
			continue
		}
		switch {
		case c.Callback:
			trusted = append(trusted, "callback contract (most general client) "+k)
		case c.Dep:
			trusted = append(trusted, "dependency contract (assumed) "+k)
		case c.Trusted != "":
			trusted = append(trusted, "trusted contract "+k+": "+c.Trusted)
		case x.lookupFunc(k) == nil:
			trusted = append(trusted, "interface contract "+k+" (implementations proved against it separately where claimed)")
		default:
			if !contains(keys, k) {
				trusted = append(trusted, "contract of "+k+" used at call sites (its own proof belongs to the properties it is tagged with)")
			}
		}
	}
	var abstracted []string
	for _, k := range sortedKeys(x.abstracted) {
		abstracted = append(abstracted, fmt.Sprintf("%s (x%d): result unconstrained, assumed effect-free on the modelled state and not to panic", k, x.abstracted[k]))
	}
	var inlined []string
	for _, k := range sortedKeys(x.inlined) {
		inlined = append(inlined, k)
	}
	for _, l := range s.specs.Lemmas {
		if l.Axiom {
			assumptions = append(assumptions, "spec axiom "+l.Name+": "+l.Src)
		}
	}
	for _, k := range keys {
		if c := s.specs.Contracts[k]; c != nil {
			for _, a := range c.Assumed {
				assumptions = append(assumptions, "assumed in contract of "+k+": "+a)
			}
			for _, invs := range c.LoopInv {
				for _, inv := range invs {
					if clauseHasTag(inv, "slow") && tier != "thorough" {
						assumptions = append(assumptions, "loop invariant of "+k+" proved in the thorough tier only (solver time above the quick budget), assumed here: "+inv.Src)
					}
				}
			}
			for _, en := range c.Ensures {
				if clauseHasTag(en, "assumed") {
					assumptions = append(assumptions, "postcondition of "+k+" ASSUMED, not proved: "+en.Src)
				}
				if clauseHasTag(en, "slow") && tier != "thorough" {
					assumptions = append(assumptions, "postcondition of "+k+" proved in the thorough tier only (solver time above the quick budget), assumed here: "+en.Src)
				}
			}
		}
	}
	assumptions = append(assumptions, extraAssumptions(prop)...)
	for _, w := range x.warnings {
		assumptions = append(assumptions, "binding: "+w)
	}

	ev := map[string]any{
		"property_id": prop,
		"tier":        tier,
		"seed":        seed,
		"level":       "proof",
		"coverage": map[string]any{
			"obligations":              nObl - knownHits, // obligations expected to discharge: those listed as known findings are counted apart
			"discharged":               nDis,
			"obligations_total":        nObl,
			"obligation_instances":     len(all) - nCover,
			"checker_cmd":              fmt.Sprintf("/verif/bin/gowp check -property %s -tier %s", prop, tier),
			"trusted_base":             trusted,
			"functions_under_contract": keys,
			"backends":                 backends,
			"solver_time_s":            round3(solverTime),
			"solver_wall_s":            round3(solveWall),
			"slowest":                  slow,
			"covers":                   nCover,
			"paths":                    x.paths,
			"state_merges":             x.merges,
			"abstracted_calls":         abstracted,
			"inlined_functions":        inlined,
			"known_findings_hit":       knownHits,
			"samples":                  samples,
			"bounded":                  boundedNotes(prop),
			"integers":                 "bit-vectors of the Go width (wrap-around modelled exactly); floats are IEEE-754 SMT FloatingPoint, RNE",
			"composition_argument":     "DESIGN.md section 5, " + prop,
		},
		"assumptions": assumptions,
		"wall_s":      round3(time.Since(start).Seconds()),
		"violations":  violations,
	}
	if len(machinery) == 0 || violations > 0 {
		evDir := filepath.Join(verifDir, "evidence")
		if d := os.Getenv("GOWP_EVIDENCE"); d != "" {
			evDir = d // seeded-change runs keep their evidence away from the committed files
		}
		os.MkdirAll(evDir, 0o755)
		data, _ := json.MarshalIndent(ev, "", " ")
		os.WriteFile(filepath.Join(evDir, prop+".json"), data, 0o644)
	}
	for _, l := range knownLines {
		fmt.Println(l)
	}
	for _, m := range machinery {
		fmt.Println("MACHINERY:", m)
	}
	for _, l := range violLines {
		fmt.Println(l)
	}
	fmt.Printf("%s %s: %d obligations (%d instances), %d discharged, %d violations, %d known findings, %d covers; %d functions; %.1fs\n",
		prop, tier, nObl, len(all)-nCover, nDis, violations, knownHits, nCover, len(keys), time.Since(start).Seconds())
	if violations > 0 {
		return 1 // a violated obligation is reported even when other parts of the proof could not be bound
	}
	if len(machinery) > 0 {
		return 2
	}
	if nObl == 0 {
		fmt.Println("MACHINERY: no obligations generated for", prop)
		return 2
	}
	if violations > 0 {
		return 1
	}
	return 0
}

func verdictWord(sm *oblSummary) string {
	if sm.OK {
		return "discharged"
	}
	return "failed:" + sm.Verdict
}

func contains(l []string, s string) bool {
	for _, v := range l {
		if v == s {
			return true
		}
	}
	return false
}

func round3(f float64) float64 { return float64(int(f*1000+0.5)) / 1000 }

// lemmaObligations turns the lemmas tagged with prop into standalone obligations.
func (x *Exec) lemmaObligations(prop string) []*Obligation {
	var out []*Obligation
	for _, l := range x.specs.Lemmas {
		if l.Axiom {
			continue
		}
		tagged := false
		for _, t := range l.Tags {
			if t == prop {
				tagged = true
			}
		}
		if !tagged {
			continue
		}
		st := &State{x: x, heap: map[string]Term{}, cells: map[*Cell]Val{}, ghost: map[string]Term{}, declared: map[string]bool{}}
		env := &specEnv{x: x, st: st, vars: map[string]Val{}, where: "lemma " + l.Name}
		cl := &Clause{File: l.File, Line: l.Line, Src: l.Src}
		var goal Term
		func() {
			defer func() {
				if r := recover(); r != nil {
					goal = Term{S: "false", Sort: sBool}
					x.errors = append(x.errors, fmt.Sprintf("lemma %s: %v", l.Name, r))
				}
			}()
			goal = x.evalBool(env, l.Expr, cl)
		}()
		out = append(out, &Obligation{Name: "lemma/" + l.Name, Func: "lemma", Kind: "lemma", Tags: l.Tags, Script: st.script, Goal: goal, Desc: "lemma: " + l.Src})
	}
	return out
}

func extraAssumptions(prop string) []string { return propNotes[prop].assumptions }
func boundedNotes(prop string) []string     { return propNotes[prop].bounded }

type propNote struct {
	assumptions []string
	bounded     []string
}

var propNotes = map[string]propNote{}

// loadPropNotes reads the per-property assumption notes kept next to the manifest claims.
func loadPropNotes() {
	data, err := os.ReadFile(filepath.Join(verifDir, "tools", "claims.json"))
	if err != nil {
		return
	}
	var m map[string]struct {
		Assumptions []string `json:"assumptions"`
		Bounded     []string `json:"bounded"`
	}
	if json.Unmarshal(data, &m) != nil {
		return
	}
	for k, v := range m {
		propNotes[k] = propNote{assumptions: v.Assumptions, bounded: v.Bounded}
	}
}

// writeReplay writes the replay file for a failed obligation and tries to reproduce the failure on the real
// code. It returns true when a failing input was demonstrated on the real code.
func writeReplay(path, prop string, sm *oblSummary, x *Exec) bool {
	o := sm.Worst
	var b strings.Builder
	fmt.Fprintf(&b, "# gowp replay file\nproperty: %s\nobligation: %s\nkind: %s\nwhat: %s\nfunction: %s\nposition: %s\nverdict: %s (solver %s)\npath: %s\n", prop, sm.Name, sm.Kind, o.Desc, o.Func, o.Pos, o.Res.Verdict, o.Res.Solver, strings.Join(o.Path, " "))
	model := parseModel(o.Res.Model)
	if o.Res.Verdict == "sat" {
		fmt.Fprintf(&b, "counterexample (inputs): %s\n", modelSummary(o))
	}
	found := false
	if o.Res.Verdict == "sat" {
		rep := x.tryReplay(o, model)
		fmt.Fprintf(&b, "replay: %s\n", rep.Summary)
		if rep.GoTest != "" {
			fmt.Fprintf(&b, "--- go test (in-package, injected with -overlay) ---\n%s\n--- end go test ---\n", rep.GoTest)
		}
		if rep.Output != "" {
			fmt.Fprintf(&b, "--- replay output ---\n%s\n--- end replay output ---\n", rep.Output)
		}
		found = rep.Failed
	} else {
		fmt.Fprintf(&b, "replay: the solver returned no model (%s); no failing input found\n", o.Res.Verdict)
	}
	fmt.Fprintf(&b, "--- solver output ---\n%s\n--- end solver output ---\n", firstLines(o.Res.Raw, 400))
	fmt.Fprintf(&b, "--- query ---\n%s--- end query ---\n", buildQuery(o, true))
	os.WriteFile(path, []byte(b.String()), 0o644)
	return found
}

func cmdReplay(path string) int {
	data, err := os.ReadFile(path)
	if err != nil {
		fmt.Println("MACHINERY:", err)
		return 2
	}
	s := string(data)
	i := strings.Index(s, "--- go test (in-package, injected with -overlay) ---\n")
	if i < 0 {
		fmt.Println("replay file carries no executable test (no-failing-input-found); obligation and solver output:")
		fmt.Println(firstLines(s, 12))
		return 0
	}
	j := strings.Index(s, "\n--- end go test ---")
	src := s[i+len("--- go test (in-package, injected with -overlay) ---\n") : j]
	out, failed := runOverlayTest(src, "TestGowpReplay")
	fmt.Println(out)
	if failed {
		fmt.Println("replay: the real code violates the obligation")
		return 1
	}
	fmt.Println("replay: the real code satisfies the obligation on this input")
	return 0
}
