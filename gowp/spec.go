package main

// Contract file parser. Contracts are //@ comment lines in /repo/zz_contracts_verif.go (and plain lines
// in /verif/specs/*.gospec for dependency contracts). Grammar (one clause per line):
//
//   func <key>                      start a contract; key is e.g. genUintN, (*repeat).more, bitStream.drawBits,
//                                   math.Log1p, (*strings.Builder).WriteRune
//   callback <signature>            contract assumed of every dynamically-called function value of that type
//   params a, b, c                  names for the parameters (only needed for deps/interfaces/callbacks; receiver first)
//   results r, ok                   names for the results (default: result / result0.. and declared names)
//   requires [tags] <expr>
//   ensures  [tags] <expr>
//   panics <kind> [tags]: <expr>    kind: invalidData | stopTest | testError | string | any
//   modifies <loc>, <loc>, ...      loc: x.f | ghostname | elems(x) | * (everything)
//   loop <k> invariant [tags] <expr>
//   loop <k> decreases <expr>
//   loop <k> modifies <loc>, ...
//   ghost <name> <sort>             declares a ghost global (top-level, outside any func)
//   trusted "<reason>"              contract is assumed, body not verified
//   pure                            no heap effects, result is a function of the arguments (uninterpreted)
//   inline                          never use a contract; always inline (default for functions without one)
//   lemma <name> [tags]: <expr>     closed formula proved from prelude/axioms alone
//   axiom <name>: <expr>            assumed closed formula (listed in evidence)
//   cover <expr>                    must be satisfiable together with requires

import (
	"fmt"
	"go/ast"
	"go/parser"
	"os"
	"regexp"
	"strconv"
	"strings"
)

type Clause struct {
	Kind   string // requires ensures panics invariant decreases cover
	Tags   []string
	Src    string
	Expr   ast.Expr
	Loop   int
	PKind  string // for panics
	Line   int
	File   string
	Ord    int // ordinal among clauses of the same kind in the contract
	Assume bool
	// Internal clauses talk about the callee's own variables at exit (now(x)); they are proved of the body
	// and not used at call sites.
	Internal bool
}

type Contract struct {
	Key        string
	Callback   bool
	Params     []string
	Results    []string
	Requires   []*Clause
	Ensures    []*Clause
	Panics     []*Clause
	Covers     []*Clause
	Modifies   []string
	HasMod     bool
	LoopInv    map[int][]*Clause
	LoopDec    map[int]*Clause
	LoopMod    map[int][]string
	Trusted    string
	Pure       bool
	Dep        bool // from a dependency spec file
	File       string
	Line       int
	Ghosts     []string // ghost statements: "name = expr" executed at exit (unused for now)
	Uses       []string // callback contracts: caller variables visible to the contract
	Interf     []string // locations other goroutines may change while the call blocks (lock acquisition)
	Sites      map[string][]*SiteAnn
	Assumed    []string   // free-text assumptions made by this contract (listed in evidence)
	NoNilFn    bool       // function values called in the body are assumed non-nil (recorded in Assumed)
	ReturnSets []*SiteAnn // ghost assignments at the normal exit
	FrameOnly  []string   // with NoFrame: structs whose fields are nevertheless frame-checked
	FrameTags  []string
	NoFrame    bool                 // the modifies clause is used at call sites but not checked against the body
	ChecksPub  bool                 // element writes are checked against the publication typestate (functions that fill the shared caches)
	NoSafety   bool                 // the zero-annotation no-panic sweep is not run for this function (recorded in Assumed)
	UseScen    map[string]string    // scenario contracts: at calls of <callee>, the scenario contract <callee>@<name> is applied instead of the plain one
	CbSkip     string               // scenario contracts: every dynamically called function value ends by a skip (panic invalidData) - the hypothesis, quoted
	NoStore    *Clause              // store frame: struct types no field of which the body (and its literals) stores to (Src = comma-separated type names)
	Globals    *Clause              // global frame: the only package-level variables of the package the body (and its literals) may mention (Src = comma-separated names)
	Captures   *Clause              // closures: the only variables the function literal may capture (Src = comma-separated names)
	StoreAnns  map[string][]*Clause // "after-store <global> assert e": checked right after the package variable is assigned
	Immutable  []string             // parameters (receivers) whose fields the body must not write (C15)
	Given      []GhostDecl          // scenario contracts (key "func@name"): universally quantified scenario variables
}

// SiteAnn is an annotation attached to the k-th call (source order) whose callee expression reads Text.
type SiteAnn struct {
	Site  string // e.g. sm.check#0
	Kind  string // assert | set
	Ghost string
	Cl    *Clause
}

type Transition struct {
	Key  string
	Tags []string
	Src  string
	Expr ast.Expr
	File string
	Line int
}

type GhostDecl struct {
	Name string
	Sort string
}

type Lemma struct {
	Name  string
	Tags  []string
	Src   string
	Expr  ast.Expr
	Axiom bool
	File  string
	Line  int
}

type Define struct {
	Name   string
	Params []string
	Body   ast.Expr
	Src    string
	File   string
	Line   int
}

// UFun is an uninterpreted spec function (e.g. the abstract predicate a callback computes).
type UFun struct {
	Name string
	Args []string
	Ret  string
}

type SpecSet struct {
	Contracts map[string]*Contract
	Order     []string
	Ghosts    []GhostDecl
	Lemmas    []*Lemma
	Defines   map[string]*Define
	UFuns     map[string]*UFun
	Guarded   map[string]string   // heap key "T.f" -> mutex field name
	GuardTags map[string][]string // heap key "T.f" -> properties under which the lock discipline of the field is checked
	OnceGuard map[string]string   // heap key "T.f" -> sync.Once field name
	Trans     map[string]*Transition
}

var tagRe = regexp.MustCompile(`^\[([A-Za-z0-9_, ]+)\]\s*`)

func parseTags(s string) ([]string, string) {
	m := tagRe.FindStringSubmatch(s)
	if m == nil {
		return nil, s
	}
	var tags []string
	for _, t := range strings.Split(m[1], ",") {
		t = strings.TrimSpace(t)
		if t != "" {
			tags = append(tags, t)
		}
	}
	return tags, s[len(m[0]):]
}

func splitLocs(s string) []string {
	var out []string
	depth := 0
	cur := ""
	for _, c := range s {
		switch c {
		case '(':
			depth++
		case ')':
			depth--
		case ',':
			if depth == 0 {
				out = append(out, strings.TrimSpace(cur))
				cur = ""
				continue
			}
		}
		cur += string(c)
	}
	if strings.TrimSpace(cur) != "" {
		out = append(out, strings.TrimSpace(cur))
	}
	return out
}

func (ss *SpecSet) parseFile(path string, dep bool) error {
	data, err := os.ReadFile(path)
	if err != nil {
		return err
	}
	var cur *Contract
	lines := strings.Split(string(data), "\n")
	for ln, raw := range lines {
		line := strings.TrimSpace(raw)
		if dep {
			if strings.HasPrefix(line, "#") || line == "" {
				continue
			}
			line = strings.TrimPrefix(line, "//@")
		} else {
			if !strings.HasPrefix(line, "//@") {
				continue
			}
			line = line[3:]
		}
		// strip trailing comment introduced by " // "
		if i := strings.Index(line, " // "); i >= 0 {
			line = line[:i]
		}
		line = strings.TrimSpace(line)
		if line == "" {
			continue
		}
		word, rest := line, ""
		if i := strings.IndexAny(line, " \t"); i >= 0 {
			word, rest = line[:i], strings.TrimSpace(line[i+1:])
		}
		mkClause := func(kind, src string) (*Clause, error) {
			tags, body := parseTags(src)
			c := &Clause{Kind: kind, Tags: tags, Src: body, Line: ln + 1, File: path, Internal: strings.Contains(body, "now(")}
			e, err := parser.ParseExpr(body)
			if err != nil {
				return nil, fmt.Errorf("%s:%d: cannot parse %q: %v", path, ln+1, body, err)
			}
			c.Expr = e
			return c, nil
		}
		switch word {
		case "func", "callback":
			key := rest
			cur = &Contract{Key: key, Callback: word == "callback", LoopInv: map[int][]*Clause{}, LoopDec: map[int]*Clause{}, LoopMod: map[int][]string{}, Dep: dep, File: path, Line: ln + 1}
			if _, dup := ss.Contracts[key]; dup {
				return fmt.Errorf("%s:%d: duplicate contract for %s", path, ln+1, key)
			}
			ss.Contracts[key] = cur
			ss.Order = append(ss.Order, key)
		case "ghost":
			f := strings.SplitN(rest, " ", 2)
			if len(f) != 2 {
				return fmt.Errorf("%s:%d: ghost <name> <sort>", path, ln+1)
			}
			ss.Ghosts = append(ss.Ghosts, GhostDecl{Name: f[0], Sort: strings.TrimSpace(f[1])})
		case "ufun":
			// ufun name (argsort ...) retsort   -- sorts in SMT-LIB syntax
			op := strings.Index(rest, "(")
			if op < 0 {
				return fmt.Errorf("%s:%d: ufun name (argsorts) retsort", path, ln+1)
			}
			name := strings.TrimSpace(rest[:op])
			end := skipSexp(rest, op)
			argsS := strings.TrimSpace(rest[op+1 : end-1])
			ret := strings.TrimSpace(rest[end:])
			var args []string
			for i := 0; i < len(argsS); {
				j := skipSexp(argsS, i)
				a := strings.TrimSpace(argsS[i:j])
				if a != "" {
					args = append(args, a)
				}
				i = j
			}
			if ss.UFuns == nil {
				ss.UFuns = map[string]*UFun{}
			}
			ss.UFuns[name] = &UFun{Name: name, Args: args, Ret: ret}
			cur = nil
		case "onceguarded":
			i := strings.LastIndex(rest, " by ")
			if i < 0 {
				return fmt.Errorf("%s:%d: onceguarded <fields> by <once field>", path, ln+1)
			}
			if ss.OnceGuard == nil {
				ss.OnceGuard = map[string]string{}
			}
			for _, f := range splitLocs(rest[:i]) {
				ss.OnceGuard[f] = strings.TrimSpace(rest[i+4:])
			}
			cur = nil
		case "guarded":
			// guarded T.failed, T.cleanups by mu
			i := strings.LastIndex(rest, " by ")
			if i < 0 {
				return fmt.Errorf("%s:%d: guarded <fields> by <mutex field>", path, ln+1)
			}
			if ss.Guarded == nil {
				ss.Guarded = map[string]string{}
			}
			// optional tags: guarded [C10,C14] T.cleanups by mu  (default: C14, the lock-discipline property)
			gtags, fields := parseTags(rest[:i] + " ")
			if gtags == nil {
				gtags = []string{"C14"}
			}
			if ss.GuardTags == nil {
				ss.GuardTags = map[string][]string{}
			}
			for _, f := range splitLocs(fields) {
				f = strings.TrimSpace(f)
				ss.Guarded[f] = strings.TrimSpace(rest[i+4:])
				ss.GuardTags[f] = gtags
			}
			cur = nil
		case "transition":
			// transition T.ctx [tags]: expr over old, new
			i := strings.Index(rest, ":")
			if i < 0 {
				return fmt.Errorf("%s:%d: transition <S.f>: expr", path, ln+1)
			}
			head, body := strings.TrimSpace(rest[:i]), strings.TrimSpace(rest[i+1:])
			key := head
			var tags []string
			if j := strings.Index(head, "["); j >= 0 {
				key = strings.TrimSpace(head[:j])
				tags, _ = parseTags(head[j:] + " ")
			}
			e, err := parser.ParseExpr(body)
			if err != nil {
				return fmt.Errorf("%s:%d: cannot parse %q: %v", path, ln+1, body, err)
			}
			if ss.Trans == nil {
				ss.Trans = map[string]*Transition{}
			}
			ss.Trans[key] = &Transition{Key: key, Tags: tags, Src: body, Expr: e, File: path, Line: ln + 1}
			cur = nil
		case "define":
			// define name(a, b, c) = expr
			eq := strings.Index(rest, "=")
			op := strings.Index(rest, "(")
			cp := strings.Index(rest, ")")
			if eq < 0 || op < 0 || cp < 0 || cp > eq {
				return fmt.Errorf("%s:%d: define name(params) = expr", path, ln+1)
			}
			name := strings.TrimSpace(rest[:op])
			var params []string
			for _, p := range strings.Split(rest[op+1:cp], ",") {
				p = strings.TrimSpace(p)
				if p != "" {
					params = append(params, strings.Fields(p)[0])
				}
			}
			body := strings.TrimSpace(rest[eq+1:])
			e, err := parser.ParseExpr(body)
			if err != nil {
				return fmt.Errorf("%s:%d: cannot parse %q: %v", path, ln+1, body, err)
			}
			if ss.Defines == nil {
				ss.Defines = map[string]*Define{}
			}
			ss.Defines[name] = &Define{Name: name, Params: params, Body: e, Src: body, File: path, Line: ln + 1}
			cur = nil
		case "lemma", "axiom":
			i := strings.Index(rest, ":")
			if i < 0 {
				return fmt.Errorf("%s:%d: lemma <name> [tags]: expr", path, ln+1)
			}
			head, body := strings.TrimSpace(rest[:i]), strings.TrimSpace(rest[i+1:])
			name := head
			var tags []string
			if j := strings.Index(head, "["); j >= 0 {
				name = strings.TrimSpace(head[:j])
				tags, _ = parseTags(head[j:] + " ")
			}
			e, err := parser.ParseExpr(body)
			if err != nil {
				return fmt.Errorf("%s:%d: cannot parse %q: %v", path, ln+1, body, err)
			}
			ss.Lemmas = append(ss.Lemmas, &Lemma{Name: name, Tags: tags, Src: body, Expr: e, Axiom: word == "axiom", File: path, Line: ln + 1})
		default:
			if cur == nil {
				return fmt.Errorf("%s:%d: clause %q outside a contract", path, ln+1, word)
			}
			switch word {
			case "params":
				cur.Params = splitLocs(rest)
			case "uses":
				cur.Uses = splitLocs(rest)
			case "checks-publication":
				cur.ChecksPub = true
			case "nosafety":
				cur.NoSafety = true
				cur.Assumed = append(cur.Assumed, "no-panic sweep (bounds, type assertions, make sizes) not run for "+cur.Key+": "+strings.Trim(rest, `"`))
			case "captures":
				tags, body := parseTags(rest)
				cur.Captures = &Clause{Kind: "captures", Tags: tags, Src: body, Line: ln + 1, File: path}
			case "uses-scenario":
				// uses-scenario F@name: inside this scenario, calls of F are given F's own scenario contract F@name (whose
				// preconditions are checked at the call like any other's)
				k := strings.TrimSpace(rest)
				i := strings.Index(k, "@")
				if i <= 0 {
					return fmt.Errorf("%s:%d: uses-scenario <function>@<name>", path, ln+1)
				}
				if cur.UseScen == nil {
					cur.UseScen = map[string]string{}
				}
				cur.UseScen[k[:i]] = k
			case "callbacks-skip":
				cur.CbSkip = strings.Trim(strings.TrimSpace(rest), `"`)
				cur.Assumed = append(cur.Assumed, "scenario hypothesis of "+cur.Key+": every function value it calls ends by a skip ("+cur.CbSkip+")")
			case "nostore":
				// nostore [tags] T1, T2: the function's own body and its function literals contain no store to a field of
				// these struct types (decided on the SSA; also checked for a trusted contract)
				tags, body := parseTags(rest)
				cur.NoStore = &Clause{Kind: "nostore", Tags: tags, Src: body, Line: ln + 1, File: path}
			case "globals":
				// globals [tags] a, b | nothing: the package-level variables of the package under verification that the
				// function's own body and its function literals may mention at all (read, write or address)
				tags, body := parseTags(rest)
				cur.Globals = &Clause{Kind: "globals", Tags: tags, Src: body, Line: ln + 1, File: path}
			case "on-return":
				// on-return set <ghost> = <expr>: ghost assignment at the function's normal exit, before its postconditions
				// are checked (the expression may use now(local)); skipped on exits where the expression is not defined
				f := strings.SplitN(rest, " ", 2)
				if len(f) != 2 || f[0] != "set" || !strings.Contains(f[1], "=") {
					return fmt.Errorf("%s:%d: on-return set <ghost> = <expr>", path, ln+1)
				}
				eq := strings.Index(f[1], "=")
				c, err := mkClause("on-return", strings.TrimSpace(f[1][eq+1:]))
				if err != nil {
					return err
				}
				cur.ReturnSets = append(cur.ReturnSets, &SiteAnn{Kind: "set", Ghost: strings.TrimSpace(f[1][:eq]), Cl: c})
			case "after-store":
				f := strings.SplitN(rest, " ", 3)
				if len(f) < 3 || f[1] != "assert" {
					return fmt.Errorf("%s:%d: after-store <global> assert expr", path, ln+1)
				}
				c, err := mkClause("store-assert", f[2])
				if err != nil {
					return err
				}
				if cur.StoreAnns == nil {
					cur.StoreAnns = map[string][]*Clause{}
				}
				c.Ord = len(cur.StoreAnns[f[0]])
				cur.StoreAnns[f[0]] = append(cur.StoreAnns[f[0]], c)
			case "immutable":
				cur.Immutable = append(cur.Immutable, splitLocs(rest)...)
			case "given":
				f := strings.SplitN(rest, " ", 2)
				if len(f) != 2 {
					return fmt.Errorf("%s:%d: given <name> <sort>", path, ln+1)
				}
				cur.Given = append(cur.Given, GhostDecl{Name: f[0], Sort: strings.TrimSpace(f[1])})
			case "interference":
				cur.Interf = append(cur.Interf, splitLocs(rest)...)
			case "at":
				// at <site> assert [tags] expr | at <site> set ghost = expr | at <site> onpanic ghost = expr (set on the
				// call's panicking exit; panicval is the value)
				f := strings.SplitN(rest, " ", 3)
				if len(f) < 3 {
					return fmt.Errorf("%s:%d: at <site> assert|set ...", path, ln+1)
				}
				site := f[0]
				if !strings.Contains(site, "#") {
					site += "#0"
				}
				ann := &SiteAnn{Site: site, Kind: f[1]}
				body := f[2]
				if f[1] == "set" || f[1] == "onpanic" {
					eq := strings.Index(body, "=")
					if eq < 0 {
						return fmt.Errorf("%s:%d: at <site> set ghost = expr", path, ln+1)
					}
					ann.Ghost = strings.TrimSpace(body[:eq])
					body = strings.TrimSpace(body[eq+1:])
				} else if f[1] != "assert" && f[1] != "ensure" && f[1] != "assume" && f[1] != "witness" {
					return fmt.Errorf("%s:%d: at <site> assert|set ...", path, ln+1)
				}
				c, err := mkClause("site-"+f[1], body)
				if err != nil {
					return err
				}
				ann.Cl = c
				if cur.Sites == nil {
					cur.Sites = map[string][]*SiteAnn{}
				}
				c.Ord = len(cur.Sites[site])
				cur.Sites[site] = append(cur.Sites[site], ann)
			case "results":
				cur.Results = splitLocs(rest)
			case "requires", "ensures", "cover", "defines", "assumes-pre":
				c, err := mkClause(word, rest)
				if err != nil {
					return err
				}
				if word == "defines" || word == "assumes-pre" {
					// definitional constraint on ghost state that is used nowhere else: assumed when the body
					// is verified, not demanded from callers (a suitable ghost value always exists)
					c.Kind = "requires"
					c.Assume = true
					word = "requires"
					cur.Assumed = append(cur.Assumed, "assumed at entry of "+cur.Key+" and not demanded from callers: "+rest)
				}
				switch word {
				case "requires":
					c.Ord = len(cur.Requires)
					cur.Requires = append(cur.Requires, c)
				case "ensures":
					c.Ord = len(cur.Ensures)
					cur.Ensures = append(cur.Ensures, c)
				case "cover":
					c.Ord = len(cur.Covers)
					cur.Covers = append(cur.Covers, c)
				}
			case "panics":
				i := strings.Index(rest, ":")
				if i < 0 {
					return fmt.Errorf("%s:%d: panics <kind>: expr", path, ln+1)
				}
				head, body := strings.TrimSpace(rest[:i]), strings.TrimSpace(rest[i+1:])
				kind := head
				var tags []string
				if j := strings.Index(head, "["); j >= 0 {
					kind = strings.TrimSpace(head[:j])
					tags, _ = parseTags(head[j:] + " ")
				}
				c, err := mkClause("panics", body)
				if err != nil {
					return err
				}
				c.PKind = kind
				c.Tags = append(c.Tags, tags...)
				c.Ord = len(cur.Panics)
				cur.Panics = append(cur.Panics, c)
			case "modifies":
				cur.HasMod = true
				if rest != "nothing" {
					cur.Modifies = append(cur.Modifies, splitLocs(rest)...)
				}
			case "loop":
				f := strings.SplitN(rest, " ", 3)
				if len(f) < 3 {
					return fmt.Errorf("%s:%d: loop <k> invariant|decreases|modifies ...", path, ln+1)
				}
				k, err := strconv.Atoi(strings.TrimSuffix(f[0], ":"))
				if err != nil {
					return fmt.Errorf("%s:%d: bad loop ordinal %q", path, ln+1, f[0])
				}
				switch f[1] {
				case "invariant":
					c, err := mkClause("invariant", f[2])
					if err != nil {
						return err
					}
					c.Loop = k
					c.Ord = len(cur.LoopInv[k])
					cur.LoopInv[k] = append(cur.LoopInv[k], c)
				case "decreases":
					c, err := mkClause("decreases", f[2])
					if err != nil {
						return err
					}
					c.Loop = k
					cur.LoopDec[k] = c
				case "modifies":
					cur.LoopMod[k] = append(cur.LoopMod[k], splitLocs(f[2])...)
				default:
					return fmt.Errorf("%s:%d: unknown loop clause %q", path, ln+1, f[1])
				}
			case "assumes":
				cur.Assumed = append(cur.Assumed, strings.Trim(rest, `"`))
			case "frame-only":
				// frame-only T [tags]: the modifies clause is checked against the body for the fields of struct T only
				f := strings.Fields(rest)
				if len(f) == 0 {
					return fmt.Errorf("%s:%d: frame-only <Struct> [tags]", path, ln+1)
				}
				cur.FrameOnly = append(cur.FrameOnly, f[0])
				if len(f) > 1 {
					cur.FrameTags = append(cur.FrameTags, strings.Split(strings.Trim(f[1], "[]"), ",")...)
				}
			case "noframe":
				cur.NoFrame = true
				cur.Assumed = append(cur.Assumed, "the modifies clause of "+cur.Key+" is not checked against its body (it calls user code and allocates): "+strings.Trim(rest, `"`))
			case "assumes-nonnil-calls":
				cur.NoNilFn = true
				cur.Assumed = append(cur.Assumed, "function values called in "+cur.Key+" are not nil: "+strings.Trim(rest, `"`))
			case "trusted":
				cur.Trusted = strings.Trim(rest, `"`)
				if cur.Trusted == "" {
					cur.Trusted = "(no reason given)"
				}
			case "pure":
				cur.Pure = true
			default:
				return fmt.Errorf("%s:%d: unknown clause %q", path, ln+1, word)
			}
		}
	}
	return nil
}

func loadSpecs(repoFile string, depFiles []string) (*SpecSet, error) {
	ss := &SpecSet{Contracts: map[string]*Contract{}}
	if err := ss.parseFile(repoFile, false); err != nil {
		return nil, err
	}
	for _, d := range depFiles {
		if err := ss.parseFile(d, true); err != nil {
			return nil, err
		}
	}
	return ss, nil
}

func (c *Contract) hasTag(tag string) bool {
	for _, l := range [][]*Clause{c.Requires, c.Ensures, c.Panics} {
		for _, cl := range l {
			for _, t := range cl.Tags {
				if t == tag {
					return true
				}
			}
		}
	}
	for _, l := range c.LoopInv {
		for _, cl := range l {
			for _, t := range cl.Tags {
				if t == tag {
					return true
				}
			}
		}
	}
	for _, l := range c.Sites {
		for _, a := range l {
			for _, t := range a.Cl.Tags {
				if t == tag {
					return true
				}
			}
		}
	}
	for _, l := range c.StoreAnns {
		for _, cl := range l {
			for _, t := range cl.Tags {
				if t == tag {
					return true
				}
			}
		}
	}
	if c.Captures != nil && clauseHasTag(c.Captures, tag) {
		return true
	}
	if c.Globals != nil && clauseHasTag(c.Globals, tag) {
		return true
	}
	if c.NoStore != nil && clauseHasTag(c.NoStore, tag) {
		return true
	}
	if len(c.FrameOnly) > 0 && contains(c.FrameTags, tag) {
		return true
	}
	return false
}

func clauseHasTag(c *Clause, tag string) bool {
	for _, t := range c.Tags {
		if t == tag {
			return true
		}
	}
	return false
}
