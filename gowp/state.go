package main

// Symbolic values, state, heap model.

import (
	"fmt"
	"go/token"
	"go/types"
	"sort"
	"strings"

	"golang.org/x/tools/go/ssa"
)

type Val interface{}

type StructV struct {
	T     *types.Struct
	Named types.Type
	F     []Val
}

type SliceV struct {
	Arr, Off, Len, Cap Term
	Elem               types.Type
}

type TupleV []Val

type ClosureV struct {
	Fn   *ssa.Function
	Bind []Val
}

type Cell struct {
	id   int
	name string
	typ  types.Type
}

type CellPtr struct {
	C    *Cell
	Path []pathElem
}

type pathElem struct {
	field int  // >=0: struct field
	idx   Term // array index when field < 0
}

type FieldPtr struct {
	Ref Term
	S   *types.Struct
	SN  string
	Idx int
}

type ElemPtr struct {
	Arr  Term
	Idx  Term // absolute index
	Elem types.Type
}

// ElemFieldPtr is the address of one field of a struct-typed slice element.
type ElemFieldPtr struct {
	Arr   Term
	Idx   Term
	Elem  types.Type
	Field int
}

type GlobalPtr struct {
	G *ssa.Global
}

// ArrPtr is the address of a local Go array, modelled as a backing store so that slices of it alias it.
type ArrPtr struct {
	Ref  Term
	Elem types.Type
	N    int64
}

type BuiltinV struct{ Name string }

type MapIterV struct{ M Val }

// ---------------------------------------------------------------------------------------------

type scriptNode struct {
	line string
	prev *scriptNode
	n    int
}

func (s *scriptNode) push(line string) *scriptNode {
	n := 1
	if s != nil {
		n = s.n + 1
	}
	return &scriptNode{line: line, prev: s, n: n}
}

func (s *scriptNode) lines() []string {
	if s == nil {
		return nil
	}
	out := make([]string, s.n)
	for p := s; p != nil; p = p.prev {
		out[p.n-1] = p.line
	}
	return out
}

type deferRec struct {
	callee Val // ClosureV, *ssa.Function, Term(Fn), BuiltinV
	common *ssa.CallCommon
	args   []Val
	recv   Val
	instr  *ssa.Defer
}

type loopCut struct {
	variant *Term
}

type Frame struct {
	fn            *ssa.Function
	regs          map[ssa.Value]Val
	block         *ssa.BasicBlock
	prev          *ssa.BasicBlock
	pc            int
	defers        []deferRec
	bind          []Val
	fvEntry       []Val // values of the captured variables at entry (function literals under contract)
	cut           map[*ssa.BasicBlock]*loopCut
	unwinding     bool
	retTo         ssa.Value
	deferred      bool // frame is a deferred call of its parent
	depth         int
	runningDefers bool
}

func (f *Frame) clone() *Frame {
	g := *f
	g.regs = make(map[ssa.Value]Val, len(f.regs))
	for k, v := range f.regs {
		g.regs[k] = v
	}
	g.defers = append([]deferRec(nil), f.defers...)
	g.cut = make(map[*ssa.BasicBlock]*loopCut, len(f.cut))
	for k, v := range f.cut {
		g.cut[k] = v
	}
	return &g
}

type heapSnap struct {
	heap  map[string]Term
	epoch int
	marks []havocMark
	ghost map[string]Term
}

type State struct {
	x          *Exec
	script     *scriptNode
	heap       map[string]Term
	epoch      int
	cells      map[*Cell]Val
	ghost      map[string]Term
	frames     []*Frame
	panicking  *Term
	path       []string
	steps      int
	declared   map[string]bool // lazily declared symbols (shared-by-copy)
	draws      []string        // symbols returned by interface draw calls, for replay
	entry      *heapSnap
	dead       bool
	marks      []havocMark
	panicSite  string
	panicWhy   string
	interfered map[string][]Term // heap (key, ref) pairs changed by the environment (other goroutines)
}

func (st *State) fork() *State {
	n := *st
	n.heap = make(map[string]Term, len(st.heap))
	for k, v := range st.heap {
		n.heap[k] = v
	}
	n.cells = make(map[*Cell]Val, len(st.cells))
	for k, v := range st.cells {
		n.cells[k] = v
	}
	n.ghost = make(map[string]Term, len(st.ghost))
	for k, v := range st.ghost {
		n.ghost[k] = v
	}
	n.declared = make(map[string]bool, len(st.declared))
	for k, v := range st.declared {
		n.declared[k] = v
	}
	n.frames = make([]*Frame, len(st.frames))
	for i, f := range st.frames {
		n.frames[i] = f.clone()
	}
	n.path = append([]string(nil), st.path...)
	n.draws = append([]string(nil), st.draws...)
	n.interfered = make(map[string][]Term, len(st.interfered))
	for k, v := range st.interfered {
		n.interfered[k] = append([]Term(nil), v...)
	}
	if st.panicking != nil {
		p := *st.panicking
		n.panicking = &p
	}
	return &n
}

func (st *State) top() *Frame { return st.frames[len(st.frames)-1] }

func (st *State) emit(line string) { st.script = st.script.push(line) }

func (st *State) assume(t Term) {
	if t.S == "true" || st.x.noDef {
		return
	}
	st.emit("(assert " + t.S + ")")
}

func (st *State) snap() *heapSnap {
	h := &heapSnap{heap: make(map[string]Term, len(st.heap)), epoch: st.epoch, marks: st.marks, ghost: make(map[string]Term, len(st.ghost))}
	for k, v := range st.heap {
		h.heap[k] = v
	}
	for k, v := range st.ghost {
		h.ghost[k] = v
	}
	return h
}

// fresh declares a fresh constant of the given sort.
func (st *State) fresh(hint, sort string, typ types.Type) Term {
	st.x.symCounter++
	name := fmt.Sprintf("%s!%d", sanitize(hint), st.x.symCounter)
	st.emit("(declare-const " + name + " " + sort + ")")
	return Term{S: name, Sort: sort, Typ: typ}
}

// def names a term to keep scripts DAG-shaped.
func (st *State) def(hint string, t Term) Term {
	if len(t.S) < 24 || !strings.Contains(t.S, "(") || st.x.noDef {
		return t
	}
	st.x.symCounter++
	name := fmt.Sprintf("%s!%d", sanitize(hint), st.x.symCounter)
	st.emit("(define-fun " + name + " () " + t.Sort + " " + t.S + ")")
	return Term{S: name, Sort: t.Sort, Typ: t.Typ}
}

func sanitize(s string) string {
	var b strings.Builder
	for _, c := range s {
		if c >= 'a' && c <= 'z' || c >= 'A' && c <= 'Z' || c >= '0' && c <= '9' || c == '_' || c == '.' {
			b.WriteRune(c)
		} else {
			b.WriteRune('_')
		}
	}
	if b.Len() == 0 {
		return "v"
	}
	return b.String()
}

func (st *State) declareOnce(name, decl string) {
	if st.declared[name] {
		return
	}
	st.declared[name] = true
	st.emit(decl)
}

// ---------------------------------------------------------------------------------------------
// Sorts of Go types

// mathInt is the type of mathematical-integer ghost values (SMT sort Int).
var mathInt types.Type = types.NewNamed(types.NewTypeName(0, nil, "mathint", nil), types.Typ[types.Int], nil)

func (x *Exec) sortOf(t types.Type) (string, bool) {
	if t == mathInt {
		return sInt, true
	}
	switch u := under(t).(type) {
	case *types.Basic:
		switch {
		case u.Info()&types.IsBoolean != 0:
			return sBool, true
		case u.Info()&types.IsInteger != 0:
			return sBV(x.intWidth(u)), true
		case u.Kind() == types.Float64 || u.Kind() == types.UntypedFloat:
			return sF64, true
		case u.Kind() == types.Float32:
			return sF32, true
		case u.Info()&types.IsString != 0:
			return sStr, true
		case u.Kind() == types.UnsafePointer:
			return sRef, true
		case u.Kind() == types.UntypedNil:
			return sRef, true
		}
	case *types.Pointer, *types.Map, *types.Chan:
		return sRef, true
	case *types.Interface:
		if _, ok := t.(*types.TypeParam); ok {
			return sGen, true
		}
		return sAny, true
	case *types.Signature:
		return sFn, true
	case *types.Array:
		es, ok := x.sortOf(u.Elem())
		if !ok {
			return "", false
		}
		return sArr(sBV(64), es), true
	}
	if _, ok := t.(*types.TypeParam); ok {
		return sGen, true
	}
	return "", false
}

func (x *Exec) intWidth(b *types.Basic) int {
	switch b.Kind() {
	case types.Int8, types.Uint8:
		return 8
	case types.Int16, types.Uint16:
		return 16
	case types.Int32, types.Uint32:
		return 32
	case types.Int64, types.Uint64, types.Int, types.Uint, types.Uintptr, types.UntypedInt, types.UntypedRune:
		if b.Kind() == types.UntypedRune {
			return 32
		}
		return 64
	}
	return 64
}

func isSigned(t types.Type) bool {
	if t == nil {
		return true
	}
	if b, ok := under(t).(*types.Basic); ok {
		return b.Info()&types.IsUnsigned == 0
	}
	return false
}

func isTypeParam(t types.Type) bool {
	_, ok := t.(*types.TypeParam)
	return ok
}

func structName(t types.Type) string {
	switch n := t.(type) {
	case *types.Named:
		return n.Obj().Name()
	case *types.Alias:
		return structName(types.Unalias(n))
	}
	return sanitize(t.String())
}

// ---------------------------------------------------------------------------------------------
// fresh / zero values of a Go type

func (st *State) freshVal(t types.Type, hint string) Val {
	x := st.x
	if b, ok := t.(*types.Basic); ok && b.Kind() == types.Invalid {
		return Term{S: "false", Sort: sBool} // unused component of a range tuple
	}
	switch u := under(t).(type) {
	case *types.Struct:
		if _, isTP := t.(*types.TypeParam); !isTP {
			sv := &StructV{T: u, Named: t, F: make([]Val, u.NumFields())}
			for i := 0; i < u.NumFields(); i++ {
				sv.F[i] = st.freshVal(u.Field(i).Type(), hint+"."+u.Field(i).Name())
			}
			return sv
		}
	case *types.Slice:
		s := &SliceV{
			Arr:  st.fresh(hint+"_arr", sRef, nil),
			Off:  st.fresh(hint+"_off", sBV(64), nil),
			Len:  st.fresh(hint+"_len", sBV(64), nil),
			Cap:  st.fresh(hint+"_cap", sBV(64), nil),
			Elem: u.Elem(),
		}
		st.assumeSliceInv(s)
		return s
	case *types.Tuple:
		tv := make(TupleV, u.Len())
		for i := 0; i < u.Len(); i++ {
			tv[i] = st.freshVal(u.At(i).Type(), fmt.Sprintf("%s_%d", hint, i))
		}
		return tv
	}
	sort, ok := x.sortOf(t)
	if !ok {
		panic(unsupported{"cannot model type " + t.String()})
	}
	v := st.fresh(hint, sort, t)
	if sort == sStr {
		st.assume(app(sBool, nil, "bvsle", bv64(0), app(sBV(64), nil, "str_len", v)))
	}
	return v
}

func (st *State) assumeSliceInv(s *SliceV) {
	z := bv64(0)
	big := Term{S: "#x1000000000000000", Sort: sBV(64)}
	st.assume(tAnd(
		app(sBool, nil, "bvsle", z, s.Off),
		app(sBool, nil, "bvsle", z, s.Len),
		app(sBool, nil, "bvsle", s.Len, s.Cap),
		app(sBool, nil, "bvslt", s.Cap, big),
		app(sBool, nil, "bvslt", s.Off, big),
		tImplies(tSame(s.Arr, Term{S: "ref_nil", Sort: sRef}), tSame(s.Cap, bv64(0))),
	))
}

func bv64(v uint64) Term { return Term{S: bvConst(v, 64), Sort: sBV(64)} }

func (st *State) zeroVal(t types.Type) Val {
	x := st.x
	switch u := under(t).(type) {
	case *types.Struct:
		if _, isTP := t.(*types.TypeParam); !isTP {
			sv := &StructV{T: u, Named: t, F: make([]Val, u.NumFields())}
			for i := 0; i < u.NumFields(); i++ {
				sv.F[i] = st.zeroVal(u.Field(i).Type())
			}
			return sv
		}
	case *types.Slice:
		return &SliceV{Arr: Term{S: "ref_nil", Sort: sRef}, Off: bv64(0), Len: bv64(0), Cap: bv64(0), Elem: u.Elem()}
	case *types.Array:
		es, ok := x.sortOf(u.Elem())
		if !ok {
			panic(unsupported{"array of " + u.Elem().String()})
		}
		z := st.zeroVal(u.Elem()).(Term)
		return Term{S: "((as const " + sArr(sBV(64), es) + ") " + z.S + ")", Sort: sArr(sBV(64), es), Typ: t}
	case *types.Tuple:
		tv := make(TupleV, u.Len())
		for i := range tv {
			tv[i] = st.zeroVal(u.At(i).Type())
		}
		return tv
	}
	sort, ok := x.sortOf(t)
	if !ok {
		panic(unsupported{"cannot model type " + t.String()})
	}
	switch {
	case sort == sBool:
		return Term{S: "false", Sort: sBool, Typ: t}
	case isBV(sort):
		return Term{S: bvConst(0, bvWidth(sort)), Sort: sort, Typ: t}
	case sort == sF64:
		return Term{S: "(_ +zero 11 53)", Sort: sort, Typ: t}
	case sort == sF32:
		return Term{S: "(_ +zero 8 24)", Sort: sort, Typ: t}
	case sort == sStr:
		return Term{S: "str_empty", Sort: sort, Typ: t}
	case sort == sRef:
		return Term{S: "ref_nil", Sort: sort, Typ: t}
	case sort == sAny:
		return Term{S: "any_nil", Sort: sort, Typ: t}
	case sort == sFn:
		return Term{S: "fn_nil", Sort: sort, Typ: t}
	case sort == sGen:
		st.declareOnce("gen_zero", "(declare-const gen_zero Gen)")
		return Term{S: "gen_zero", Sort: sort, Typ: t}
	}
	panic(unsupported{"zero of " + t.String()})
}

type unsupported struct{ msg string }

// ---------------------------------------------------------------------------------------------
// Heap

func (st *State) heapArr(key, elSort string) Term {
	if t, ok := st.heap[key]; ok {
		return t
	}
	t := st.heapInit(key, elSort, epochFor(key, st.epoch, st.marks))
	st.heap[key] = t
	return t
}

func (st *State) heapInit(key, elSort string, epoch int) Term {
	name := fmt.Sprintf("H%d_%s", epoch, sanitize(key))
	sort := sArr(sRef, elSort)
	st.declareOnce(name, "(declare-const "+name+" "+sort+")")
	return Term{S: name, Sort: sort}
}

func (st *State) snapArr(h *heapSnap, key, elSort string) Term {
	if h == nil {
		return st.heapArr(key, elSort)
	}
	if t, ok := h.heap[key]; ok {
		return t
	}
	return st.heapInit(key, elSort, epochFor(key, h.epoch, h.marks))
}

func (st *State) heapRead(h *heapSnap, key, elSort string, ref Term, typ types.Type) Term {
	arr := st.snapArr(h, key, elSort)
	t := tSelect(arr, ref)
	t.Typ = typ
	return t
}

func (st *State) heapWrite(key, elSort string, ref Term, v Term) {
	arr := st.heapArr(key, elSort)
	n := st.def("H_"+key, tStore(arr, ref, v))
	if n.S == tStore(arr, ref, v).S { // def did not name it
		st.x.symCounter++
		name := fmt.Sprintf("H_%s!%d", sanitize(key), st.x.symCounter)
		st.emit("(define-fun " + name + " () " + arr.Sort + " " + n.S + ")")
		n = Term{S: name, Sort: arr.Sort}
	}
	st.heap[key] = n
}

func (st *State) havocAll() {
	st.epoch = st.x.nextEpoch()
	st.heap = map[string]Term{}
	st.marks = nil
}

// embRef is the reference of a struct-valued field embedded in the object at ref. Embedding functions are
// injective, and their images are disjoint from each other, from nil, and from every allocated object
// (is_fresh of an embedded reference is a negative code unique to the embedding function).
func (st *State) embRef(sn string, fieldName string, ref Term) Term {
	fn := "emb_" + sanitize(sn) + "_" + sanitize(fieldName)
	if !st.declared[fn] {
		st.declareOnce("is_fresh", "(declare-fun is_fresh (Ref) Int)")
		st.declareOnce("is_fresh_nil", "(assert (= (is_fresh ref_nil) 0))")
		code, ok := st.x.embCodes[fn]
		if !ok {
			code = len(st.x.embCodes) + 1
			st.x.embCodes[fn] = code
		}
		st.declareOnce(fn, "(declare-fun "+fn+" (Ref) Ref)")
		st.declareOnce(fn+"_inv", "(declare-fun inv_"+fn+" (Ref) Ref)")
		st.declareOnce(fn+"_ax", fmt.Sprintf("(assert (forall ((r!e Ref)) (! (and (= (inv_%s (%s r!e)) r!e) (= (is_fresh (%s r!e)) (- %d))) :pattern ((%s r!e)))))", fn, fn, fn, code, fn))
	}
	return app(sRef, nil, fn, ref)
}

// loadField reads field i of struct S (named sn) at ref from snapshot h (nil = current heap).
func (st *State) loadField(h *heapSnap, ref Term, S *types.Struct, sn string, i int) Val {
	f := S.Field(i)
	key := sn + "." + f.Name()
	return st.loadAt(h, key, ref, f.Type(), func() Term { return st.embRef(sn, f.Name(), ref) })
}

func (st *State) loadAt(h *heapSnap, key string, ref Term, t types.Type, emb func() Term) Val {
	switch u := under(t).(type) {
	case *types.Struct:
		if !isTypeParam(t) {
			return st.loadStruct(h, emb(), u, t)
		}
	case *types.Slice:
		s := &SliceV{
			Arr:  st.heapRead(h, key+"#arr", sRef, ref, nil),
			Off:  st.heapRead(h, key+"#off", sBV(64), ref, nil),
			Len:  st.heapRead(h, key+"#len", sBV(64), ref, nil),
			Cap:  st.heapRead(h, key+"#cap", sBV(64), ref, nil),
			Elem: u.Elem(),
		}
		st.assumeSliceInv(s)
		st.allocatedBefore(s.Arr)
		return s
	}
	sort, ok := st.x.sortOf(t)
	if !ok {
		panic(unsupported{"heap load of " + t.String()})
	}
	v := st.heapRead(h, key, sort, ref, t)
	if sort == sStr {
		st.assume(app(sBool, nil, "bvsle", bv64(0), app(sBV(64), nil, "str_len", v)))
	}
	if sort == sRef {
		st.allocatedBefore(v)
	}
	return v
}

// boundRefs applies allocatedBefore to every reference inside a (possibly composite) value.
func (st *State) boundRefs(v Val) {
	switch tv := v.(type) {
	case Term:
		if tv.Sort == sRef {
			st.allocatedBefore(tv)
		}
	case *SliceV:
		st.allocatedBefore(tv.Arr)
	case *StructV:
		for _, f := range tv.F {
			st.boundRefs(f)
		}
	case TupleV:
		for _, f := range tv {
			st.boundRefs(f)
		}
	}
}

// allocatedBefore records that a reference read from the heap was allocated no later than now, hence differs
// from everything allocated afterwards on this path.
func (st *State) allocatedBefore(v Term) {
	if st.x.noDef {
		return
	}
	st.declareOnce("is_fresh", "(declare-fun is_fresh (Ref) Int)")
	st.assume(Term{S: fmt.Sprintf("(and (>= (is_fresh %s) 0) (<= (is_fresh %s) %d))", v.S, v.S, st.x.freshCounter), Sort: sBool})
}

func (st *State) loadStruct(h *heapSnap, ref Term, S *types.Struct, named types.Type) Val {
	sn := structName(named)
	sv := &StructV{T: S, Named: named, F: make([]Val, S.NumFields())}
	for i := 0; i < S.NumFields(); i++ {
		sv.F[i] = st.loadField(h, ref, S, sn, i)
	}
	return sv
}

func (st *State) storeField(ref Term, S *types.Struct, sn string, i int, v Val) {
	f := S.Field(i)
	key := sn + "." + f.Name()
	st.storeAt(key, ref, f.Type(), v, func() Term { return st.embRef(sn, f.Name(), ref) })
}

func (st *State) storeAt(key string, ref Term, t types.Type, v Val, emb func() Term) {
	switch u := under(t).(type) {
	case *types.Struct:
		if !isTypeParam(t) {
			st.storeStruct(emb(), u, t, v)
			return
		}
	case *types.Slice:
		s := st.asSlice(v, u.Elem())
		st.heapWrite(key+"#arr", sRef, ref, s.Arr)
		st.heapWrite(key+"#off", sBV(64), ref, s.Off)
		st.heapWrite(key+"#len", sBV(64), ref, s.Len)
		st.heapWrite(key+"#cap", sBV(64), ref, s.Cap)
		return
	}
	sort, ok := st.x.sortOf(t)
	if !ok {
		panic(unsupported{"heap store of " + t.String()})
	}
	tv := st.asTerm(v, t)
	st.heapWrite(key, sort, ref, tv)
}

func (st *State) storeStruct(ref Term, S *types.Struct, named types.Type, v Val) {
	sv, ok := v.(*StructV)
	if !ok {
		panic(unsupported{fmt.Sprintf("store of non-struct value %T into struct", v)})
	}
	sn := structName(named)
	for i := 0; i < S.NumFields(); i++ {
		st.storeField(ref, S, sn, i, sv.F[i])
	}
}

// havocField assigns a fresh value to field i at ref.
func (st *State) havocField(ref Term, S *types.Struct, sn string, i int) {
	f := S.Field(i)
	v := st.freshVal(f.Type(), "hv_"+sn+"_"+f.Name())
	st.storeField(ref, S, sn, i, v)
}

func (st *State) asSlice(v Val, elem types.Type) *SliceV {
	switch s := v.(type) {
	case *SliceV:
		return s
	case Term:
		if s.S == "ref_nil" {
			return &SliceV{Arr: s, Off: bv64(0), Len: bv64(0), Cap: bv64(0), Elem: elem}
		}
	}
	panic(unsupported{fmt.Sprintf("not a slice value: %T %v", v, v)})
}

func (st *State) asTerm(v Val, t types.Type) Term {
	switch tv := v.(type) {
	case Term:
		return tv
	case FieldPtr:
		ft := tv.S.Field(tv.Idx).Type()
		if _, ok := under(ft).(*types.Struct); ok {
			r := st.embRef(tv.SN, tv.S.Field(tv.Idx).Name(), tv.Ref)
			r.Typ = types.NewPointer(ft)
			return r
		}
		panic(unsupported{"pointer to non-struct field escapes: " + tv.SN + "." + tv.S.Field(tv.Idx).Name()})
	case *ClosureV:
		return st.closureTerm(tv)
	case *ssa.Function:
		return st.funcTerm(tv)
	case GlobalPtr:
		return st.globalRef(tv.G)
	case CellPtr:
		// pointer to a local escapes into a term: give it an opaque identity
		name := fmt.Sprintf("cellref_%d", tv.C.id)
		st.declareOnce(name, "(declare-const "+name+" Ref)")
		return Term{S: name, Sort: sRef, Typ: t}
	}
	panic(unsupported{fmt.Sprintf("value %T cannot be used as a scalar", v)})
}

func (st *State) closureTerm(c *ClosureV) Term {
	st.x.symCounter++
	name := fmt.Sprintf("closure_%s!%d", sanitize(c.Fn.Name()), st.x.symCounter)
	st.emit("(declare-const " + name + " Fn)")
	st.emit("(assert (not (= " + name + " fn_nil)))")
	st.x.closures[name] = c
	return Term{S: name, Sort: sFn}
}

func (st *State) funcTerm(f *ssa.Function) Term {
	name := "fn_" + sanitize(funcKey(f, st.x.pkg.Pkg))
	st.declareOnce(name, "(declare-const "+name+" Fn)")
	st.declareOnce(name+"_nn", "(assert (not (= "+name+" fn_nil)))")
	st.x.funcs[name] = f
	return Term{S: name, Sort: sFn}
}

func (st *State) globalRef(g *ssa.Global) Term {
	name := "glob_" + sanitize(g.Name())
	st.declareOnce(name, "(declare-const "+name+" Ref)")
	st.declareOnce(name+"_nn", "(assert (not (= "+name+" ref_nil)))")
	return Term{S: name, Sort: sRef}
}

// ---------------------------------------------------------------------------------------------
// slice elements

// elemKeys lists the element-array keys (with sort and Go type) that make up one slice element of type elem.
// Struct elements get one array per field; a slice-typed field (or a slice element) takes four (arr, off, len, cap).
func (st *State) elemKeys(elem types.Type) (keys []string, sorts []string, typs []types.Type) {
	if su, ok := under(elem).(*types.Struct); ok && !isTypeParam(elem) {
		sn := structName(elem)
		for i := 0; i < su.NumFields(); i++ {
			f := su.Field(i)
			if _, isSlice := under(f.Type()).(*types.Slice); isSlice {
				base := "elem:" + sn + "." + f.Name()
				keys = append(keys, base+"#arr", base+"#off", base+"#len", base+"#cap")
				sorts = append(sorts, sRef, sBV(64), sBV(64), sBV(64))
				typs = append(typs, nil, nil, nil, nil)
				continue
			}
			s, ok := st.x.sortOf(f.Type())
			if !ok {
				panic(unsupported{"slice element field " + sn + "." + f.Name() + " of type " + f.Type().String()})
			}
			keys = append(keys, "elem:"+sn+"."+f.Name())
			sorts = append(sorts, s)
			typs = append(typs, f.Type())
		}
		return
	}
	if sl, ok := under(elem).(*types.Slice); ok {
		_ = sl
		base := "elem:slice_" + sanitize(elem.String())
		return []string{base + "#arr", base + "#off", base + "#len", base + "#cap"}, []string{sRef, sBV(64), sBV(64), sBV(64)}, []types.Type{nil, nil, nil, nil}
	}
	s, ok := st.x.sortOf(elem)
	if !ok {
		panic(unsupported{"slice element type " + elem.String()})
	}
	return []string{"elem:" + sanitize(s)}, []string{s}, []types.Type{elem}
}

// elemFieldKeyIndex returns the index into elemKeys of the first key of struct field f.
func elemFieldKeyIndex(su *types.Struct, f int) int {
	idx := 0
	for i := 0; i < f; i++ {
		if _, isSlice := under(su.Field(i).Type()).(*types.Slice); isSlice {
			idx += 4
		} else {
			idx++
		}
	}
	return idx
}

func (st *State) elemArr(h *heapSnap, key, elSort string) Term {
	return st.snapArr(h, key, sArr(sBV(64), elSort))
}

func (st *State) loadElem(h *heapSnap, arr, idx Term, elem types.Type) Val {
	keys, sorts, typs := st.elemKeys(elem)
	if su, ok := under(elem).(*types.Struct); ok && !isTypeParam(elem) {
		sv := &StructV{T: su, Named: elem, F: make([]Val, su.NumFields())}
		g := func(i int) Term {
			t := tSelect(tSelect(st.elemArr(h, keys[i], sorts[i]), arr), idx)
			t.Typ = typs[i]
			return t
		}
		for f := 0; f < su.NumFields(); f++ {
			k := elemFieldKeyIndex(su, f)
			if sl, isSlice := under(su.Field(f).Type()).(*types.Slice); isSlice {
				fs := &SliceV{Arr: g(k), Off: g(k + 1), Len: g(k + 2), Cap: g(k + 3), Elem: sl.Elem()}
				st.assumeSliceInv(fs)
				sv.F[f] = fs
			} else {
				sv.F[f] = g(k)
			}
		}
		return sv
	}
	if sl, ok := under(elem).(*types.Slice); ok {
		g := func(i int) Term { return tSelect(tSelect(st.elemArr(h, keys[i], sorts[i]), arr), idx) }
		s := &SliceV{Arr: g(0), Off: g(1), Len: g(2), Cap: g(3), Elem: sl.Elem()}
		st.assumeSliceInv(s)
		return s
	}
	t := tSelect(tSelect(st.elemArr(h, keys[0], sorts[0]), arr), idx)
	t.Typ = elem
	return t
}

func (st *State) storeElem(arr, idx Term, elem types.Type, v Val) {
	keys, sorts, _ := st.elemKeys(elem)
	put := func(i int, tv Term) {
		a := st.elemArr(nil, keys[i], sorts[i])
		inner := tStore(tSelect(a, arr), idx, tv)
		st.x.symCounter++
		name := fmt.Sprintf("E_%s!%d", sanitize(keys[i]), st.x.symCounter)
		st.emit("(define-fun " + name + " () " + a.Sort + " " + tStore(a, arr, inner).S + ")")
		st.heap[keys[i]] = Term{S: name, Sort: a.Sort}
	}
	if su, ok := under(elem).(*types.Struct); ok && !isTypeParam(elem) {
		sv := v.(*StructV)
		for f := 0; f < su.NumFields(); f++ {
			k := elemFieldKeyIndex(su, f)
			if sl, isSlice := under(su.Field(f).Type()).(*types.Slice); isSlice {
				fs := st.asSlice(sv.F[f], sl.Elem())
				put(k, fs.Arr)
				put(k+1, fs.Off)
				put(k+2, fs.Len)
				put(k+3, fs.Cap)
			} else {
				put(k, st.asTerm(sv.F[f], nil))
			}
		}
		return
	}
	if sl, ok := under(elem).(*types.Slice); ok {
		s := st.asSlice(v, sl.Elem())
		put(0, s.Arr)
		put(1, s.Off)
		put(2, s.Len)
		put(3, s.Cap)
		return
	}
	put(0, st.asTerm(v, elem))
}

// havocElems gives the element array at ref arr fresh contents.
func (st *State) havocElems(arr Term, elem types.Type) {
	keys, sorts, _ := st.elemKeys(elem)
	for i := range keys {
		a := st.elemArr(nil, keys[i], sorts[i])
		fr := st.fresh("hv_"+keys[i], sArr(sBV(64), sorts[i]), nil)
		st.x.symCounter++
		name := fmt.Sprintf("E_%s!%d", sanitize(keys[i]), st.x.symCounter)
		st.emit("(define-fun " + name + " () " + a.Sort + " " + tStore(a, arr, fr).S + ")")
		st.heap[keys[i]] = Term{S: name, Sort: a.Sort}
	}
}

// freshRef returns a reference distinct from nil and from every reference allocated earlier on this path;
// it is also assumed not to have existed at entry (allocated_at_entry is an uninterpreted predicate that
// every reference obtained from a parameter or loaded from the entry heap satisfies only if the executor says so).
func (st *State) freshRef(hint string) Term {
	r := st.fresh(hint, sRef, nil)
	st.assume(tNot(tSame(r, Term{S: "ref_nil", Sort: sRef})))
	st.declareOnce("is_fresh", "(declare-fun is_fresh (Ref) Int)")
	st.x.freshCounter++
	st.assume(tSame(app(sInt, nil, "is_fresh", r), Term{S: fmt.Sprint(st.x.freshCounter), Sort: sInt}))
	if pub, ok := st.ghost["published"]; ok {
		st.assume(tNot(tSelect(pub, r))) // newly allocated memory has not been handed to a shared cache
	}
	return r
}

// notFresh records that a reference existed before the function started (parameters, entry-heap loads).
func (st *State) notFresh(r Term) {
	st.declareOnce("is_fresh", "(declare-fun is_fresh (Ref) Int)")
	st.assume(tSame(app(sInt, nil, "is_fresh", r), Term{S: "0", Sort: sInt}))
}

// ---------------------------------------------------------------------------------------------

func sortedKeys[V any](m map[string]V) []string {
	ks := make([]string, 0, len(m))
	for k := range m {
		ks = append(ks, k)
	}
	sort.Strings(ks)
	return ks
}

func posStr(fset *token.FileSet, p token.Pos) string {
	if !p.IsValid() {
		return "?"
	}
	pp := fset.Position(p)
	f := pp.Filename
	if i := strings.LastIndex(f, "/"); i >= 0 {
		f = f[i+1:]
	}
	return fmt.Sprintf("%s:%d", f, pp.Line)
}

// under is Underlying() that sees through type parameters with a core type (e.g. S ~[]E behaves as []E).
func under(t types.Type) types.Type {
	if tp, ok := t.(*types.TypeParam); ok {
		if iface, ok := tp.Constraint().Underlying().(*types.Interface); ok {
			for i := 0; i < iface.NumEmbeddeds(); i++ {
				switch e := iface.EmbeddedType(i).(type) {
				case *types.Union:
					if e.Len() == 1 {
						return e.Term(0).Type().Underlying()
					}
				}
			}
		}
		return t.Underlying()
	}
	return t.Underlying()
}
