package main

import (
	_ "golang.org/x/tools/go/packages"
	_ "golang.org/x/tools/go/ssa"
	_ "golang.org/x/tools/go/ssa/ssautil"
)

func main() {}
