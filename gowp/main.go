package main

import (
	"encoding/json"
	"flag"
	"fmt"
	"go/ast"
	"go/parser"
	"os"
	"path/filepath"
	"runtime"
	"sort"
	"strings"
	"sync"
	"time"

	"golang.org/x/tools/go/packages"
	"golang.org/x/tools/go/ssa"
	"golang.org/x/tools/go/ssa/ssautil"
)

func parserParseExpr(s string) (ast.Expr, error) { return parser.ParseExpr(s) }

var (
	repoDir  = "/repo"
	verifDir = "/verif"
)

func loadRepo(dir string) (*ssa.Program, *ssa.Package, *packages.Package, error) {
	cfg := &packages.Config{
		Mode:       packages.LoadAllSyntax,
		Dir:        dir,
		BuildFlags: []string{"-tags=verif"},
		Env:        append(os.Environ(), "GOFLAGS=-mod=mod", "GOPROXY=off", "GOSUMDB=off", "GOTOOLCHAIN=local"),
	}
	pkgs, err := packages.Load(cfg, ".")
	if err != nil {
		return nil, nil, nil, err
	}
	if packages.PrintErrors(pkgs) > 0 {
		return nil, nil, nil, fmt.Errorf("/repo does not type-check")
	}
	prog, spkgs := ssautil.AllPackages(pkgs, ssa.NaiveForm|ssa.GlobalDebug)
	prog.Build()
	return prog, spkgs[0], pkgs[0], nil
}

func specFiles() (string, []string) {
	deps, _ := filepath.Glob(filepath.Join(verifDir, "specs", "*.gospec"))
	sort.Strings(deps)
	return filepath.Join(repoDir, "zz_contracts_verif.go"), deps
}

type runCfg struct {
	tier      string
	timeoutMs int
	allSolver bool
	jobs      int
	short     map[string]bool // obligation names solved with a short budget
}

func main() {
	if len(os.Args) < 2 {
		fmt.Fprintln(os.Stderr, "usage: gowp check|verify|dump|replay ...")
		os.Exit(2)
	}
	if d := os.Getenv("GOWP_REPO"); d != "" {
		repoDir = d
	}
	if d := os.Getenv("GOWP_VERIF"); d != "" {
		verifDir = d
	}
	defer cleanupQueryDir()
	switch os.Args[1] {
	case "dump":
		prog, pkg, tp, err := loadRepo(repoDir)
		if err != nil {
			fmt.Println(err)
			os.Exit(2)
		}
		x := newExec(prog, pkg, tp, &SpecSet{})
		for _, name := range os.Args[2:] {
			fn := x.lookupFunc(name)
			if fn == nil {
				fmt.Println("not found:", name)
				continue
			}
			fn.WriteTo(os.Stdout)
			for _, a := range fn.AnonFuncs {
				a.WriteTo(os.Stdout)
			}
		}
	case "verify":
		fs := flag.NewFlagSet("verify", flag.ExitOnError)
		fn := fs.String("func", "", "contract key(s), comma separated")
		tag := fs.String("tag", "", "only check clauses with this tag (others assumed)")
		timeout := fs.Int("timeout", 10000, "per-obligation timeout (ms)")
		verbose := fs.Bool("v", false, "list every obligation")
		fs.Parse(os.Args[2:])
		code := cmdVerify(strings.Split(*fn, ","), *tag, *timeout, *verbose)
		cleanupQueryDir()
		os.Exit(code)
	case "check":
		fs := flag.NewFlagSet("check", flag.ExitOnError)
		prop := fs.String("property", "", "property id")
		tier := fs.String("tier", "quick", "quick|thorough")
		fs.Parse(os.Args[2:])
		if t := os.Getenv("VERIF_TIER"); t != "" && *tier == "" {
			*tier = t
		}
		code := cmdCheck(*prop, *tier)
		cleanupQueryDir()
		os.Exit(code)
	case "replay":
		if len(os.Args) < 3 {
			fmt.Fprintln(os.Stderr, "usage: gowp replay <file>")
			os.Exit(2)
		}
		code := cmdReplay(os.Args[2])
		cleanupQueryDir()
		os.Exit(code)
	default:
		fmt.Fprintln(os.Stderr, "unknown command", os.Args[1])
		os.Exit(2)
	}
}

// ---------------------------------------------------------------------------------------------

type session struct {
	x     *Exec
	specs *SpecSet
	load  float64
}

func newSession(onlyTag string) (*session, error) {
	t0 := time.Now()
	prog, pkg, tpkg, err := loadRepo(repoDir)
	if err != nil {
		return nil, err
	}
	cf, deps := specFiles()
	specs, err := loadSpecs(cf, deps)
	if err != nil {
		return nil, err
	}
	x := newExec(prog, pkg, tpkg, specs)
	x.onlyTag = onlyTag
	return &session{x: x, specs: specs, load: time.Since(t0).Seconds()}, nil
}

// verifyFuncs runs the executor over the functions, collecting obligations; machinery errors are returned.
func (s *session) verifyFuncs(keys []string) []string {
	var errs []string
	for _, k := range keys {
		func() {
			defer func() {
				if r := recover(); r != nil {
					switch e := r.(type) {
					case specError:
						errs = append(errs, fmt.Sprintf("%s: contract error: %s", k, e.msg))
					case unsupported:
						errs = append(errs, fmt.Sprintf("%s: outside the modelled subset: %s", k, e.msg))
					default:
						buf := make([]byte, 4096)
						n := runtime.Stack(buf, false)
						errs = append(errs, fmt.Sprintf("%s: internal error: %v\n%s", k, r, buf[:n]))
					}
				}
			}()
			if err := s.x.VerifyFunc(k); err != nil {
				errs = append(errs, err.Error())
			}
		}()
	}
	return errs
}

func buildQuery(o *Obligation, negate bool) string {
	var b strings.Builder
	b.WriteString(preludeSMT)
	lines := o.Script.lines()
	body := strings.Join(lines, "\n") + "\n" + o.Goal.S
	if o.Kind != "cover" {
		b.WriteString(axiomsFor(body))
	}
	var lits []string
	for _, l := range lines {
		if o.Kind == "cover" && (strings.Contains(l, "(forall ") || strings.Contains(l, "(exists ")) && strings.HasPrefix(l, "(assert") {
			continue // quantified hypotheses are left out of vacuity checks so that they stay decidable
		}
		b.WriteString(l)
		b.WriteString("\n")
		if strings.HasPrefix(l, "(declare-const strlit_") {
			lits = append(lits, strings.Fields(l)[1])
		}
	}
	if len(lits) > 0 {
		b.WriteString("(assert (distinct str_empty " + strings.Join(lits, " ") + "))\n")
	}
	if negate {
		b.WriteString("(assert (not " + o.Goal.S + "))\n")
	}
	b.WriteString("(check-sat)\n(get-model)\n")
	return b.String()
}

func discharge(obls []*Obligation, cfg runCfg) {
	// pass 1: one instance of every named obligation; pass 2: the remaining instances. An obligation whose first
	// instance could not be discharged is already reported: its other instances get a short budget only.
	var first, rest []*Obligation
	seen := map[string]bool{}
	for _, o := range obls {
		if !seen[o.Name] {
			seen[o.Name] = true
			first = append(first, o)
		} else {
			rest = append(rest, o)
		}
	}
	failed := map[string]bool{}
	var mu sync.Mutex
	run := func(batch []*Obligation) {
		sem := make(chan struct{}, cfg.jobs)
		var wg sync.WaitGroup
		for _, o := range batch {
			if o.Goal.S == "true" && o.Kind != "cover" {
				o.Res = solveResult{Verdict: "unsat", Solver: "syntactic"}
				continue
			}
			wg.Add(1)
			sem <- struct{}{}
			go func(o *Obligation) {
				defer wg.Done()
				defer func() { <-sem }()
				q := buildQuery(o, true)
				to := cfg.timeoutMs
				mu.Lock()
				already := failed[o.Name]
				mu.Unlock()
				if (cfg.short[o.Name] || already) && to > 10000 {
					to = 10000 // a known finding, or already failing in another instance: do not wait for the full budget
				}
				o.Res = solve(q, to, cfg.allSolver, nil, o.Kind == "cover")
				if o.Kind == "cover" && o.PreScript != nil && o.Res.Verdict == "unsat" {
					// infeasible after the call: a contradictory contract only if the call site itself is reachable
					pre := *o
					pre.Script = o.PreScript
					pr := solve(buildQuery(&pre, true), to, false, nil, true)
					if pr.Verdict == "unsat" {
						o.Res.Verdict = "sat"
						o.Res.Solver += " (call site unreachable)"
					}
				}
				ok := o.Res.Verdict == "unsat"
				if o.Kind == "cover" {
					ok = true
				}
				if !ok {
					mu.Lock()
					failed[o.Name] = true
					mu.Unlock()
				}
			}(o)
		}
		wg.Wait()
	}
	run(first)
	run(rest)
}

func cmdVerify(keys []string, tag string, timeoutMs int, verbose bool) int {
	s, err := newSession(tag)
	if err != nil {
		fmt.Println("MACHINERY:", err)
		return 2
	}
	if len(keys) == 1 && keys[0] == "all" {
		keys = nil
		for _, k := range s.specs.Order {
			c := s.specs.Contracts[k]
			fk := k
			if i := strings.Index(k, "@"); i >= 0 {
				fk = k[:i]
			}
			if !c.Dep && !c.Callback && c.Trusted == "" && s.x.lookupFunc(fk) != nil {
				keys = append(keys, k)
			}
		}
	}
	errs := s.verifyFuncs(keys)
	for _, e := range errs {
		fmt.Println("MACHINERY:", e)
	}
	t0 := time.Now()
	if d := os.Getenv("GOWP_DUMPALL"); d != "" {
		for i, o := range s.x.obls {
			os.WriteFile(filepath.Join(d, fmt.Sprintf("%s.%d.smt2", sanitize(o.Name), i)), []byte("; path: "+strings.Join(o.Path, " ")+"\n"+buildQuery(o, true)), 0o644)
		}
	}
	discharge(s.x.obls, runCfg{timeoutMs: timeoutMs, jobs: 7})
	bad := 0
	byName := map[string][]*Obligation{}
	var order []string
	for _, o := range s.x.obls {
		if _, ok := byName[o.Name]; !ok {
			order = append(order, o.Name)
		}
		byName[o.Name] = append(byName[o.Name], o)
	}
	for _, n := range order {
		os_ := byName[n]
		ok := true
		var worst *Obligation
		tmax := 0.0
		anyCoverSat := false
		for _, o := range os_ {
			if o.Kind == "cover" && o.Res.Verdict == "sat" {
				anyCoverSat = true
			}
		}
		for _, o := range os_ {
			good := o.Res.Verdict == "unsat"
			if o.Kind == "cover" {
				good = o.Res.Verdict == "sat" || anyCoverSat
			}
			if !good {
				ok = false
				if worst == nil {
					worst = o
				}
			}
			if o.Res.Time > tmax {
				tmax = o.Res.Time
			}
		}
		if !ok {
			bad++
			fmt.Printf("FAIL  %-60s x%d  %s [%s] %s\n      path: %s\n", n, len(os_), worst.Res.Verdict, worst.Res.Solver, worst.Desc, strings.Join(worst.Path, " "))
			if worst.Res.Verdict == "sat" && worst.Kind != "cover" {
				fmt.Printf("      model: %s\n", modelSummary(worst))
			}
			if worst.Res.Verdict == "error" {
				fmt.Printf("      raw: %s\n", firstLines(worst.Res.Raw, 6))
			}
			if os.Getenv("GOWP_DUMPFAIL") != "" {
				f := filepath.Join(os.Getenv("GOWP_DUMPFAIL"), sanitize(n)+".smt2")
				os.WriteFile(f, []byte(buildQuery(worst, true)), 0o644)
			}
		} else if verbose {
			fmt.Printf("ok    %-60s x%d  %.2fs [%s]\n", n, len(os_), tmax, os_[0].Res.Solver)
		}
	}
	fmt.Printf("%d obligation instances (%d named), %d failing names, exec errors %d, paths %d, solve %.1fs\n", len(s.x.obls), len(order), bad, len(errs), s.x.paths, time.Since(t0).Seconds())
	if len(errs) > 0 {
		return 2
	}
	if bad > 0 {
		return 1
	}
	return 0
}

func firstLines(s string, n int) string {
	ls := strings.Split(s, "\n")
	if len(ls) > n {
		ls = ls[:n]
	}
	return strings.Join(ls, " | ")
}

func jsonStr(v any) string {
	b, _ := json.Marshal(v)
	return string(b)
}
