package main

import (
	"regexp"
	"strings"
)

// Assumed facts about uninterpreted library functions. Each is listed in the evidence of every property
// whose obligations use the function.

type axiom struct {
	Name string
	Uses string // symbol whose presence in a query makes the axiom relevant
	SMT  string
	Text string
}

var axioms = []axiom{
	{
		Name: "log1p-nonpositive-monotone",
		Uses: "log1p",
		Text: "math.Log1p is monotone (non-decreasing) on [-1, 0] and Log1p(x) <= 0 there; Log1p(-0)=-0, Log1p(0)=0",
		SMT: `(assert (forall ((a (_ FloatingPoint 11 53)) (b (_ FloatingPoint 11 53))) (! (=> (and (fp.leq ((_ to_fp 11 53) RNE (- 1.0)) a) (fp.leq a b) (fp.leq b (_ +zero 11 53))) (fp.leq (log1p a) (log1p b))) :pattern ((log1p a) (log1p b)))))
(assert (forall ((a (_ FloatingPoint 11 53))) (! (=> (and (fp.leq ((_ to_fp 11 53) RNE (- 1.0)) a) (fp.leq a (_ +zero 11 53))) (and (not (fp.isNaN (log1p a))) (fp.leq (log1p a) (_ +zero 11 53)))) :pattern ((log1p a)))))
(assert (forall ((a (_ FloatingPoint 11 53))) (! (=> (fp.isZero a) (fp.isZero (log1p a))) :pattern ((log1p a)))))
`,
	},
	{
		Name: "log1p-bounds",
		Uses: "log1p",
		Text: "Log1p(-(1-2^-53)) >= -37 (true value -36.7368...), and Log1p(-p) <= -0.0588 for p >= 1/17 (Log1p(-1/17) = -0.0606...)",
		SMT: `(assert (fp.geq (log1p (fp.neg (fp.sub RNE ((_ to_fp 11 53) RNE 1.0) ((_ to_fp 11 53) RNE (/ 1.0 9007199254740992.0))))) ((_ to_fp 11 53) RNE (- 37.0))))
(assert (fp.leq (log1p (fp.neg (fp.div RNE ((_ to_fp 11 53) RNE 1.0) ((_ to_fp 11 53) RNE 17.0)))) ((_ to_fp 11 53) RNE (- 0.0588))))
`,
	},
}

// axiomsFor returns the axioms relevant to a query (those whose function symbol occurs in it).
func axiomsFor(body string) string {
	var b strings.Builder
	for _, a := range axioms {
		if strings.Contains(body, "("+a.Uses+" ") {
			b.WriteString(a.SMT)
		}
	}
	return b.String()
}

func axiomsUsed(body string) []string {
	var out []string
	for _, a := range axioms {
		if strings.Contains(body, "("+a.Uses+" ") {
			out = append(out, a.Name+": "+a.Text)
		}
	}
	return out
}

var modelDefRe = regexp.MustCompile(`\(define-fun ([^ ]+) \(\) ([^\n]+?)\n?\s+([^\n]+)\)`)

// parseModel extracts constant definitions from a z3/cvc5 model.
func parseModel(raw string) map[string]string {
	out := map[string]string{}
	// normalise: join lines
	s := raw
	idx := 0
	for {
		i := strings.Index(s[idx:], "(define-fun ")
		if i < 0 {
			break
		}
		i += idx
		// find matching paren
		d := 0
		j := i
		for ; j < len(s); j++ {
			if s[j] == '(' {
				d++
			} else if s[j] == ')' {
				d--
				if d == 0 {
					break
				}
			}
		}
		if j >= len(s) {
			break
		}
		body := s[i+len("(define-fun ") : j]
		idx = j
		sp := strings.Index(body, " ")
		if sp < 0 {
			continue
		}
		name := strings.Trim(body[:sp], "|")
		rest := strings.TrimSpace(body[sp:])
		if !strings.HasPrefix(rest, "()") {
			continue
		}
		rest = strings.TrimSpace(rest[2:])
		// skip sort
		k := skipSexp(rest, 0)
		val := strings.Join(strings.Fields(rest[k:]), " ")
		out[name] = val
	}
	return out
}

func modelSummary(o *Obligation) string {
	m := parseModel(o.Res.Model)
	var parts []string
	for _, in := range o.Inputs {
		if v, ok := m[in.Sym]; ok {
			parts = append(parts, in.Name+"="+v)
		}
	}
	for k, d := range o.Draws {
		if v, ok := m[d]; ok {
			parts = append(parts, "draw"+itoa(k)+"="+v)
		}
	}
	return strings.Join(parts, " ")
}

func itoa(i int) string {
	return strings.TrimSpace(strings.Replace(strings.Repeat(" ", 0)+fmtInt(i), " ", "", -1))
}

func fmtInt(i int) string {
	if i == 0 {
		return "0"
	}
	neg := i < 0
	if neg {
		i = -i
	}
	s := ""
	for i > 0 {
		s = string(rune('0'+i%10)) + s
		i /= 10
	}
	if neg {
		s = "-" + s
	}
	return s
}
