package main

// Evaluation of contract expressions (Go expression syntax + spec builtins) to SMT terms in a symbolic state.

import (
	"fmt"
	"go/ast"
	"go/constant"
	"go/token"
	"go/types"
	"regexp"
	"strconv"
	"strings"

	"golang.org/x/tools/go/ssa"
)

type specEnv struct {
	x        *Exec
	st       *State
	vars     map[string]Val
	frame    *Frame // for locals by name
	pos      token.Pos
	old      *heapSnap
	oldVars  map[string]Val
	inOld    bool
	panicVal *Term
	where    string
	bound    map[string]Term
	callSite bool
	loopHead *ssa.BasicBlock
	statics  map[string]types.Type // static (instantiated) parameter types at a call site, by parameter name
	prove    bool                  // the clause is a goal of the function under verification (existsw uses its witness)
}

type specError struct{ msg string }

func (x *Exec) specFail(cl *Clause, format string, args ...any) {
	where := ""
	if cl != nil {
		where = fmt.Sprintf("%s:%d: ", cl.File, cl.Line)
	}
	panic(specError{where + fmt.Sprintf(format, args...)})
}

type elemsLoc struct {
	arr  Term
	elem types.Type
}
type ghostIdxLoc struct {
	name string
	idx  Term
}
type wholeStructLoc struct {
	Ref Term
	S   *types.Struct
	SN  string
}
type mapLoc struct{ m Term }

// streamLoc: the concrete bit-stream object held in an interface value (all fields of both stream types).
type streamLoc struct {
	ref   Term
	iface Term // the interface value, when known
}

func (x *Exec) contractEnvAtEntry(st *State, fr *Frame, c *Contract) *specEnv {
	env := &specEnv{x: x, st: st, vars: map[string]Val{}, where: "entry of " + c.Key}
	for _, p := range fr.fn.Params {
		env.vars[p.Name()] = fr.regs[p]
	}
	for i, fv := range fr.fn.FreeVars {
		env.vars[fv.Name()] = x.freeVarValue(st, fr, i, fv)
	}
	return env
}

// freeVarValue: a contract of a function literal names a captured variable by its source name and means its value
// (the binding itself is the address of the variable).
func (x *Exec) freeVarValue(st *State, fr *Frame, i int, fv *ssa.FreeVar) (v Val) {
	v = fr.bind[i]
	defer func() {
		if r := recover(); r != nil {
			v = fr.bind[i]
		}
	}()
	if pt, ok := fv.Type().(*types.Pointer); ok {
		return x.load(st, fr.bind[i], pt.Elem())
	}
	return v
}

func (x *Exec) exitEnv(st *State, fr *Frame, c *Contract) *specEnv {
	env := &specEnv{x: x, st: st, vars: map[string]Val{}, old: st.entry, where: "exit of " + c.Key, frame: fr}
	if syn := fr.fn.Syntax(); syn != nil {
		env.pos = syn.End() - 1
	}
	for _, p := range fr.fn.Params {
		env.vars[p.Name()] = fr.regs[p]
	}
	env.oldVars = map[string]Val{}
	for k, v := range env.vars {
		env.oldVars[k] = v
	}
	for i, fv := range fr.fn.FreeVars {
		if _, clash := env.vars[fv.Name()]; !clash {
			env.vars[fv.Name()] = x.freeVarValue(st, fr, i, fv)
			if i < len(fr.fvEntry) {
				env.oldVars[fv.Name()] = fr.fvEntry[i]
			}
		}
	}
	return env
}

func (x *Exec) checkEnsures(st *State, fr *Frame, res Val) {
	c := x.curContract
	for _, rs := range c.ReturnSets {
		func() {
			defer func() {
				if r := recover(); r != nil {
					if _, isSpec := r.(specError); !isSpec {
						panic(r)
					}
				}
			}()
			gs, isGhost := x.ghostSort(rs.Ghost)
			if !isGhost {
				x.specFail(rs.Cl, "on-return set: %s is not a ghost", rs.Ghost)
			}
			e0 := x.exitEnv(st, fr, c)
			var hint types.Type
			if gs == sInt {
				hint = mathInt
			}
			v := x.evalTerm(e0, rs.Cl.Expr, hint, rs.Cl)
			if isBV(gs) && isBV(v.Sort) && v.Sort != gs {
				v = x.widen64(st, v)
			}
			if v.Sort != gs {
				x.specFail(rs.Cl, "on-return set %s: sort %s does not match %s", rs.Ghost, v.Sort, gs)
			}
			st.ghost[rs.Ghost] = st.def("ghost_"+rs.Ghost, v)
		}()
	}
	env := x.exitEnv(st, fr, c)
	env.prove = true
	sig := fr.fn.Signature
	rn := x.resultNames(c, sig)
	switch sig.Results().Len() {
	case 0:
	case 1:
		env.vars["result"] = res
		if rn[0] != "" && rn[0] != "_" {
			env.vars[rn[0]] = res
		}
	default:
		for k, v := range res.(TupleV) {
			env.vars[fmt.Sprintf("result%d", k)] = v
			if rn[k] != "" && rn[k] != "_" {
				env.vars[rn[k]] = v
			}
		}
	}
	for _, en := range c.Ensures {
		if x.assumedOnly(en) || clauseHasTag(en, "assumed") || (clauseHasTag(en, "slow") && x.tier != "thorough") {
			continue
		}
		// split top-level conjunctions (also under an implies) into separate, smaller obligations
		parts := splitConj(en.Expr)
		for pi, pe := range parts {
			t := x.evalBool(env, pe, en)
			name := fmt.Sprintf("%s/ensures#%d", x.curFunc, en.Ord)
			if len(parts) > 1 {
				name = fmt.Sprintf("%s.%d", name, pi)
			}
			x.oblige(st, name, "postcondition", en.Tags, t, fr.fn.Pos(), "postcondition: "+exprStr(pe))
		}
	}
	x.checkFrame(st, fr, c, "return")
}

// checkFrame: every heap array that differs from its entry version may differ only at the references named by
// the modifies clause (evaluated in the entry state), at freshly allocated references, and at nil.
func (x *Exec) checkFrame(st *State, fr *Frame, c *Contract, at string) {
	x.checkGhostFrame(st, fr, c, at)
	if !c.HasMod || (c.NoFrame && len(c.FrameOnly) == 0) {
		return // no frame claimed
	}
	for _, l := range c.Modifies {
		if l == "*" || l == "heap" {
			return
		}
	}
	if len(c.FrameOnly) > 0 && x.onlyTag != "" && len(c.FrameTags) > 0 && !contains(c.FrameTags, x.onlyTag) {
		return
	}
	if st.epoch != st.entry.epoch {
		x.oblige(st, fmt.Sprintf("%s/frame", x.curFunc), "frame", nil, tFalse, fr.fn.Pos(), "whole heap was havocked but the contract has a modifies clause")
		return
	}
	// allowed (key, ref) pairs
	allowed := map[string][]Term{}
	elemsAllowed := map[string][]Term{}
	mapsAll := false
	env := x.exitEnv(st, fr, c)
	env.inOld = true
	for _, loc := range c.Modifies {
		if _, isGhost := x.ghostSort(loc); isGhost || loc == "heap" {
			continue
		}
		if i := strings.Index(loc, "["); i >= 0 {
			if _, isGhost := x.ghostSort(loc[:i]); isGhost {
				continue
			}
		}
		lv := x.evalLoc(env, loc, c)
		switch l := lv.(type) {
		case FieldPtr:
			x.flattenField(st, l.Ref, l.S, l.SN, l.Idx, allowed)
		case wholeStructLoc:
			for i := 0; i < l.S.NumFields(); i++ {
				x.flattenField(st, l.Ref, l.S, l.SN, i, allowed)
			}
		case elemsLoc:
			keys, _, _ := st.elemKeys(l.elem)
			for _, k := range keys {
				elemsAllowed[k] = append(elemsAllowed[k], l.arr)
			}
		case mapLoc:
			mapsAll = true
		case streamLoc:
			for _, tn := range []string{"bufBitStream", "randomBitStream"} {
				nt := x.namedType(tn)
				su := under(nt).(*types.Struct)
				for i := 0; i < su.NumFields(); i++ {
					x.flattenField(st, l.ref, su, tn, i, allowed)
				}
			}
			mapsAll = true
			// the element arrays the stream pointed to at entry
			for _, tn := range []string{"bufBitStream", "randomBitStream"} {
				rb := st.embRef(tn, "recordedBits", l.ref)
				rsu := under(x.namedType("recordedBits")).(*types.Struct)
				for i := 0; i < rsu.NumFields(); i++ {
					if sl, ok := under(rsu.Field(i).Type()).(*types.Slice); ok {
						cur := st.loadField(st.entry, rb, rsu, "recordedBits", i).(*SliceV)
						keys, _, _ := st.elemKeys(sl.Elem())
						for _, k := range keys {
							elemsAllowed[k] = append(elemsAllowed[k], cur.Arr)
						}
					}
				}
			}
		}
	}
	for k, refs := range st.interfered {
		if strings.HasPrefix(k, "elem:") {
			elemsAllowed[k] = append(elemsAllowed[k], refs...)
		} else {
			allowed[k] = append(allowed[k], refs...)
		}
	}
	st.declareOnce("is_fresh", "(declare-fun is_fresh (Ref) Int)")
	for _, k := range sortedKeys(st.heap) {
		cur := st.heap[k]
		el := arrayElemSort(cur.Sort)
		entry := st.snapArr(st.entry, k, el)
		if entry.S == cur.S {
			continue
		}
		if strings.HasPrefix(k, "map:") && mapsAll {
			continue
		}
		if len(c.FrameOnly) > 0 {
			mine := false
			for _, sn := range c.FrameOnly {
				if strings.HasPrefix(k, sn+".") {
					mine = true
				}
			}
			if !mine {
				continue
			}
			if strings.HasPrefix(k, "glob.") {
				// package variables live at the nil reference of their own array: unchanged as a whole
				goal := Term{S: "(= " + cur.S + " " + entry.S + ")", Sort: sBool}
				x.oblige(st, fmt.Sprintf("%s/frame:%s", x.curFunc, k), "frame", c.FrameTags, goal, fr.fn.Pos(), "package variable "+strings.TrimPrefix(k, "glob.")+" is not written ("+at+")")
				continue
			}
		}
		var excl []string
		excl = append(excl, "(= (is_fresh r!) 0)", "(not (= r! ref_nil))")
		refs := allowed[k]
		if strings.HasPrefix(k, "elem:") {
			refs = elemsAllowed[k]
		}
		for _, r := range refs {
			excl = append(excl, "(not (= r! "+r.S+"))")
		}
		goal := Term{S: "(forall ((r! Ref)) (=> (and " + strings.Join(excl, " ") + ") (= (select " + cur.S + " r!) (select " + entry.S + " r!))))", Sort: sBool}
		var ftags []string
		if len(c.FrameOnly) > 0 {
			ftags = c.FrameTags
		}
		x.oblige(st, fmt.Sprintf("%s/frame:%s", x.curFunc, k), "frame", ftags, goal, fr.fn.Pos(), k+" of pre-existing objects outside the modifies clause unchanged ("+at+")")
	}
}

// checkGhostFrame: a ghost that the contract does not list under modifies has its entry value at every exit
// (callers keep what they know about it across the call, so this must be proved - also for noframe functions).
func (x *Exec) checkGhostFrame(st *State, fr *Frame, c *Contract, at string) {
	if !c.HasMod || st.entry == nil {
		return
	}
	listed := map[string]bool{}
	for _, l := range c.Modifies {
		if l == "*" {
			return
		}
		if i := strings.Index(l, "["); i >= 0 {
			l = l[:i]
		}
		listed[strings.TrimSpace(l)] = true
	}
	for _, g := range x.specs.Ghosts {
		if listed[g.Name] {
			continue
		}
		cur, ok := st.ghost[g.Name]
		e0, ok0 := st.entry.ghost[g.Name]
		if !ok || !ok0 || cur.S == e0.S {
			continue
		}
		goal := Term{S: "(= " + cur.S + " " + e0.S + ")", Sort: sBool}
		x.oblige(st, fmt.Sprintf("%s/frame:ghost:%s", x.curFunc, g.Name), "frame", nil, goal, fr.fn.Pos(), "ghost "+g.Name+" is not listed under modifies and keeps its entry value ("+at+")")
	}
}

// flattenField lists the heap keys (with the reference they are indexed by) that make up field i of S at ref.
func (x *Exec) flattenField(st *State, ref Term, S *types.Struct, sn string, i int, out map[string][]Term) {
	f := S.Field(i)
	key := sn + "." + f.Name()
	switch u := under(f.Type()).(type) {
	case *types.Struct:
		if !isTypeParam(f.Type()) {
			er := st.embRef(sn, f.Name(), ref)
			nn := structName(f.Type())
			for k := 0; k < u.NumFields(); k++ {
				x.flattenField(st, er, u, nn, k, out)
			}
			return
		}
	case *types.Slice:
		for _, suf := range []string{"#arr", "#off", "#len", "#cap"} {
			out[key+suf] = append(out[key+suf], ref)
		}
		return
	}
	out[key] = append(out[key], ref)
}

func (x *Exec) checkPanicExit(st *State, fr *Frame) {
	c := x.curContract
	env := x.exitEnv(st, fr, c)
	pv := *st.panicking
	env.panicVal = &pv
	if len(c.Panics) == 0 {
		name := fmt.Sprintf("%s/no-panic@%s", x.curFunc, st.panicSite)
		x.oblige(st, name, "safety", nil, tFalse, fr.fn.Pos(), "no panic may escape ("+st.panicWhy+")")
		return
	}
	var alts []Term
	var tags []string
	for _, pc := range c.Panics {
		if x.assumedOnly(pc) {
			// clause belongs to another property: it still describes an allowed exit
		}
		cond := x.evalBool(env, pc.Expr, pc)
		alts = append(alts, tAnd(x.panicKind(st, pv, pc.PKind), cond))
		tags = append(tags, pc.Tags...)
	}
	name := fmt.Sprintf("%s/panics@%s", x.curFunc, st.panicSite)
	x.oblige(st, name, "exceptional-postcondition", tags, tOr(alts...), fr.fn.Pos(), "escaping panic ("+st.panicWhy+") is allowed by a panics clause and satisfies it")
	x.checkFrame(st, fr, c, "panic")
}

// splitConj splits a && b and implies(c, a && b) into conjuncts.
func splitConj(e ast.Expr) []ast.Expr {
	switch n := e.(type) {
	case *ast.ParenExpr:
		return splitConj(n.X)
	case *ast.BinaryExpr:
		if n.Op == token.LAND {
			return append(splitConj(n.X), splitConj(n.Y)...)
		}
	case *ast.CallExpr:
		if id, ok := n.Fun.(*ast.Ident); ok && id.Name == "implies" && len(n.Args) == 2 {
			var out []ast.Expr
			for _, p := range splitConj(n.Args[1]) {
				out = append(out, &ast.CallExpr{Fun: n.Fun, Args: []ast.Expr{n.Args[0], p}})
			}
			return out
		}
	}
	return []ast.Expr{e}
}

func (x *Exec) assumedOnly(cl *Clause) bool {
	if x.onlyTag == "" || len(cl.Tags) == 0 {
		return false
	}
	real := 0
	for _, t := range cl.Tags {
		if t != "assumed" && t != "slow" {
			real++
		}
	}
	if real == 0 {
		return false
	}
	return !clauseHasTag(cl, x.onlyTag)
}

func (x *Exec) loopEnv(st *State, fr *Frame, head *ssa.BasicBlock) *specEnv {
	env := &specEnv{x: x, st: st, vars: map[string]Val{}, frame: fr, pos: blockPos(head), old: st.entry, where: "loop in " + fr.fn.Name(), loopHead: head}
	env.oldVars = map[string]Val{}
	if len(st.frames) == 1 || true {
		for _, p := range fr.fn.Params {
			env.oldVars[p.Name()] = fr.regs[p]
		}
	}
	return env
}

// ---------------------------------------------------------------------------------------------

func (x *Exec) evalBool(env *specEnv, e ast.Expr, cl *Clause) Term {
	v := x.eval(env, e, types.Typ[types.Bool], cl)
	t, ok := v.(Term)
	if !ok || t.Sort != sBool {
		x.specFail(cl, "expression %s is not boolean", exprStr(e))
	}
	return t
}

func (x *Exec) evalTerm(env *specEnv, e ast.Expr, hint types.Type, cl *Clause) Term {
	v := x.eval(env, e, hint, cl)
	t, ok := v.(Term)
	if !ok {
		x.specFail(cl, "expression %s is not a scalar", exprStr(e))
	}
	return t
}

func exprStr(e ast.Expr) string { return types.ExprString(e) }

// constant evaluation of literal/constant expressions
func (x *Exec) constEval(e ast.Expr) (constant.Value, types.Type, bool) {
	switch n := e.(type) {
	case *ast.BasicLit:
		v := constant.MakeFromLiteral(n.Value, n.Kind, 0)
		if v.Kind() == constant.Unknown {
			return nil, nil, false
		}
		return v, nil, true
	case *ast.ParenExpr:
		return x.constEval(n.X)
	case *ast.Ident:
		if obj := x.pkg.Pkg.Scope().Lookup(n.Name); obj != nil {
			if c, ok := obj.(*types.Const); ok {
				t := c.Type()
				if b, ok := t.(*types.Basic); ok && b.Info()&types.IsUntyped != 0 {
					t = nil
				}
				return c.Val(), t, true
			}
		}
		return nil, nil, false
	case *ast.SelectorExpr:
		id, ok := n.X.(*ast.Ident)
		if !ok {
			return nil, nil, false
		}
		for _, imp := range x.pkg.Pkg.Imports() {
			if imp.Name() == id.Name {
				if c, ok := imp.Scope().Lookup(n.Sel.Name).(*types.Const); ok {
					t := c.Type()
					if b, ok := t.(*types.Basic); ok && b.Info()&types.IsUntyped != 0 {
						t = nil
					}
					return c.Val(), t, true
				}
			}
		}
		return nil, nil, false
	case *ast.UnaryExpr:
		v, t, ok := x.constEval(n.X)
		if !ok {
			return nil, nil, false
		}
		if n.Op == token.XOR && t == nil {
			return nil, nil, false
		}
		return constant.UnaryOp(n.Op, v, 0), t, true
	case *ast.BinaryExpr:
		a, ta, ok1 := x.constEval(n.X)
		b, tb, ok2 := x.constEval(n.Y)
		if !ok1 || !ok2 {
			return nil, nil, false
		}
		t := ta
		if t == nil {
			t = tb
		}
		switch n.Op {
		case token.SHL, token.SHR:
			s, ok := constant.Uint64Val(constant.ToInt(b))
			if !ok {
				return nil, nil, false
			}
			return constant.Shift(constant.ToInt(a), n.Op, uint(s)), ta, true
		case token.EQL, token.NEQ, token.LSS, token.LEQ, token.GTR, token.GEQ:
			return constant.MakeBool(constant.Compare(a, n.Op, b)), types.Typ[types.Bool], true
		case token.QUO:
			if a.Kind() == constant.Int && b.Kind() == constant.Int {
				return constant.BinaryOp(a, token.QUO_ASSIGN, b), t, true
			}
		case token.LAND, token.LOR:
			return constant.BinaryOp(a, n.Op, b), types.Typ[types.Bool], true
		}
		return constant.BinaryOp(a, n.Op, b), t, true
	}
	return nil, nil, false
}

func (x *Exec) eval(env *specEnv, e ast.Expr, hint types.Type, cl *Clause) Val {
	st := env.st
	if cv, ct, ok := x.constEval(e); ok {
		t := ct
		if t == nil {
			t = hint
		}
		if t == nil || isTypeParam(t) {
			switch cv.Kind() {
			case constant.Bool:
				t = types.Typ[types.Bool]
			case constant.String:
				t = types.Typ[types.String]
			case constant.Float:
				t = types.Typ[types.Float64]
			default:
				t = types.Typ[types.Int]
			}
		}
		if _, ok := x.sortOf(t); !ok {
			t = types.Typ[types.Int]
		}
		if s, _ := x.sortOf(t); isFP(s) || isBV(s) || s == sBool || s == sStr || s == sInt {
			if cv.Kind() == constant.Float && isBV(s) {
				x.specFail(cl, "float constant %s used as integer", exprStr(e))
			}
			return x.constTerm(st, cv, t)
		}
		return x.constTerm(st, cv, types.Typ[types.Int])
	}
	switch n := e.(type) {
	case *ast.ParenExpr:
		return x.eval(env, n.X, hint, cl)
	case *ast.Ident:
		return x.evalIdent(env, n, cl)
	case *ast.SelectorExpr:
		base := x.eval(env, n.X, nil, cl)
		return x.selectField(env, base, n.Sel.Name, cl)
	case *ast.StarExpr:
		base := x.eval(env, n.X, nil, cl)
		t, ok := base.(Term)
		if !ok || t.Typ == nil {
			x.specFail(cl, "cannot dereference %s", exprStr(n.X))
		}
		pt := under(t.Typ).(*types.Pointer).Elem()
		return x.loadIn(env, t, pt)
	case *ast.IndexExpr:
		base := x.eval(env, n.X, nil, cl)
		switch b := base.(type) {
		case *SliceV:
			idx := x.evalTerm(env, n.Index, types.Typ[types.Int], cl)
			idx = x.widen64(st, idx)
			return st.loadElem(env.snapshot(), b.Arr, app(sBV(64), nil, "bvadd", b.Off, idx), b.Elem)
		case Term:
			if b.Typ != nil {
				if mt, isMap := under(b.Typ).(*types.Map); isMap {
					if _, isStruct := mapStructFields(mt); isStruct {
						k := x.evalTerm(env, n.Index, mt.Key(), cl)
						sv, _ := x.mapLookupStruct(st, env.snapshot(), mt, b, k)
						return sv
					}
				}
			}
			if strings.HasPrefix(b.Sort, "(Array ") {
				is := arrayIdxSort(b.Sort)
				var hintT types.Type
				if isBV(is) {
					hintT = types.Typ[types.Int]
				}
				idx := x.evalTerm(env, n.Index, hintT, cl)
				if idx.Sort != is {
					if isBV(is) && isBV(idx.Sort) {
						idx = x.widen64(st, idx)
					} else {
						x.specFail(cl, "index sort %s does not match %s in %s", idx.Sort, is, exprStr(e))
					}
				}
				r := tSelect(b, idx)
				if b.Typ != nil {
					if at, ok := under(b.Typ).(*types.Array); ok {
						r.Typ = at.Elem()
					}
				}
				if r.Sort == sInt {
					r.Typ = mathInt
				}
				return r
			}
		}
		x.specFail(cl, "cannot index %s", exprStr(n.X))
	case *ast.UnaryExpr:
		switch n.Op {
		case token.NOT:
			return tNot(x.evalBool(env, n.X, cl))
		case token.SUB:
			t := x.evalTerm(env, n.X, hint, cl)
			if isFP(t.Sort) {
				return app(t.Sort, t.Typ, "fp.neg", t)
			}
			return app(t.Sort, t.Typ, "bvneg", t)
		case token.XOR:
			t := x.evalTerm(env, n.X, hint, cl)
			return app(t.Sort, t.Typ, "bvnot", t)
		}
	case *ast.BinaryExpr:
		return x.evalBinary(env, n, hint, cl)
	case *ast.CallExpr:
		return x.evalCall(env, n, hint, cl)
	}
	x.specFail(cl, "unsupported expression %s (%T)", exprStr(e), e)
	return nil
}

func (env *specEnv) snapshot() *heapSnap {
	if env.inOld {
		return env.old
	}
	return nil
}

func (x *Exec) widen64(st *State, t Term) Term {
	w := bvWidth(t.Sort)
	if w == 64 || w == 0 {
		return t
	}
	if isSigned(t.Typ) {
		return app(sBV(64), types.Typ[types.Int], fmt.Sprintf("(_ sign_extend %d)", 64-w), t)
	}
	return app(sBV(64), types.Typ[types.Int], fmt.Sprintf("(_ zero_extend %d)", 64-w), t)
}

func (x *Exec) evalIdent(env *specEnv, n *ast.Ident, cl *Clause) Val {
	st := env.st
	switch n.Name {
	case "true":
		return tTrue
	case "false":
		return tFalse
	case "nil":
		return Term{S: "ref_nil", Sort: sRef}
	case "inpanic":
		// a panic is in flight at this point of the path (deferred calls are running because of it, and nothing has
		// recovered it yet)
		if env.st != nil && env.st.panicking != nil {
			return tTrue
		}
		return tFalse
	case "panicval":
		if env.panicVal == nil {
			x.specFail(cl, "panicval used outside a panics clause")
		}
		return *env.panicVal
	}
	if b, ok := env.bound[n.Name]; ok {
		return b
	}
	if env.inOld && env.oldVars != nil {
		if v, ok := env.oldVars[n.Name]; ok {
			return v
		}
	}
	if v, ok := env.vars[n.Name]; ok {
		return v
	}
	if v, ok := x.given[n.Name]; ok {
		return v
	}
	// ghost
	if env.inOld && env.old != nil {
		if g, ok := env.old.ghost[n.Name]; ok {
			if g.Sort == sInt {
				g.Typ = mathInt
			} else if g.Sort == sBV(64) && g.Typ == nil {
				g.Typ = types.Typ[types.Uint64]
			}
			return g
		}
	}
	if g, ok := st.ghost[n.Name]; ok {
		if g.Sort == sInt {
			g.Typ = mathInt
		} else if g.Sort == sBV(64) && g.Typ == nil {
			g.Typ = types.Typ[types.Uint64]
		}
		return g
	}
	// local variable of the frame, by name, resolved in the scope at env.pos
	if env.frame != nil {
		if v, ok := x.localByName(env, n.Name); ok {
			return v
		}
		// variable captured by the function literal under proof (its current value)
		for i, fv := range env.frame.fn.FreeVars {
			if fv.Name() == n.Name && i < len(env.frame.bind) {
				return x.freeVarValue(env.st, env.frame, i, fv)
			}
		}
	}
	// package-level variable
	if m, ok := x.pkg.Members[n.Name]; ok {
		if g, ok := m.(*ssa.Global); ok {
			gt := g.Type().(*types.Pointer).Elem()
			if _, isStruct := under(gt).(*types.Struct); isStruct {
				r := st.globalRef(g)
				r.Typ = g.Type()
				return r
			}
			return st.loadAt(env.snapshot(), "glob."+g.Name(), Term{S: "ref_nil", Sort: sRef}, gt, nil)
		}
	}
	x.specFail(cl, "unknown identifier %s in %s", n.Name, env.where)
	return nil
}

func (x *Exec) localByName(env *specEnv, name string) (Val, bool) {
	fr := env.frame
	var best *ssa.Alloc
	if name == "rangeindex" && env.loopHead != nil {
		// the hidden index of a range-over-slice loop: allocated in the block that enters this loop
		for _, p := range env.loopHead.Preds {
			for _, in := range p.Instrs {
				if a, ok := in.(*ssa.Alloc); ok && a.Comment == "rangeindex" {
					if ptr, has := fr.regs[a]; has {
						return x.load(env.st, ptr, types.Typ[types.Int]), true
					}
				}
			}
		}
	}
	// resolve through go/types scopes at env.pos when possible
	var obj types.Object
	if env.pos.IsValid() {
		if sc := x.pkg.Pkg.Scope().Innermost(env.pos); sc != nil {
			_, obj = sc.LookupParent(name, env.pos)
		}
	}
	for v := range fr.regs {
		a, ok := v.(*ssa.Alloc)
		if !ok || a.Comment != name {
			continue
		}
		if obj != nil && a.Pos() == obj.Pos() {
			best = a
			break
		}
		if best == nil || (obj == nil && a.Pos() > best.Pos()) {
			best = a
		}
	}
	if best == nil {
		return nil, false
	}
	if env.inOld {
		// old(local) = value of the parameter at entry when it is one
		if v, ok := env.oldVars[name]; ok {
			return v, true
		}
	}
	et := best.Type().(*types.Pointer).Elem()
	return x.load(env.st, fr.regs[best], et), true
}

func (x *Exec) loadIn(env *specEnv, ref Term, pt types.Type) Val {
	st := env.st
	if su, ok := under(pt).(*types.Struct); ok && !isTypeParam(pt) {
		return st.loadStruct(env.snapshot(), ref, su, pt)
	}
	return st.loadAt(env.snapshot(), boxKey(pt), ref, pt, nil)
}

func (x *Exec) selectField(env *specEnv, base Val, name string, cl *Clause) Val {
	st := env.st
	switch b := base.(type) {
	case *StructV:
		if i, ok := fieldIndex(b.T, name); ok {
			return b.F[i]
		}
		// promoted through embedded struct values
		for i := 0; i < b.T.NumFields(); i++ {
			if b.T.Field(i).Embedded() {
				if sv, ok := b.F[i].(*StructV); ok {
					if _, ok := fieldIndex(sv.T, name); ok {
						return x.selectField(env, sv, name, cl)
					}
				}
			}
		}
	case Term:
		if b.Typ != nil {
			if pt, ok := under(b.Typ).(*types.Pointer); ok {
				if su, ok := under(pt.Elem()).(*types.Struct); ok {
					sn := structName(pt.Elem())
					if i, ok := fieldIndex(su, name); ok {
						return st.loadField(env.snapshot(), b, su, sn, i)
					}
					for i := 0; i < su.NumFields(); i++ {
						f := su.Field(i)
						if f.Embedded() {
							if es, ok := under(f.Type()).(*types.Struct); ok {
								if _, ok := fieldIndex(es, name); ok {
									er := st.embRef(sn, f.Name(), b)
									er.Typ = types.NewPointer(f.Type())
									return x.selectField(env, er, name, cl)
								}
							}
						}
					}
				}
			}
		}
	case FieldPtr, GlobalPtr:
		r := st.asTerm(b, nil)
		return x.selectField(env, r, name, cl)
	}
	x.specFail(cl, "cannot select field %s (base %T)", name, base)
	return nil
}

func fieldIndex(s *types.Struct, name string) (int, bool) {
	for i := 0; i < s.NumFields(); i++ {
		if s.Field(i).Name() == name {
			return i, true
		}
	}
	return 0, false
}

func isConstExpr(x *Exec, e ast.Expr) bool {
	_, _, ok := x.constEval(e)
	return ok
}

func (x *Exec) evalBinary(env *specEnv, n *ast.BinaryExpr, hint types.Type, cl *Clause) Val {
	st := env.st
	switch n.Op {
	case token.LAND:
		return tAnd(x.evalBool(env, n.X, cl), x.evalBool(env, n.Y, cl))
	case token.LOR:
		return tOr(x.evalBool(env, n.X, cl), x.evalBool(env, n.Y, cl))
	}
	isCmp := false
	switch n.Op {
	case token.EQL, token.NEQ, token.LSS, token.LEQ, token.GTR, token.GEQ:
		isCmp = true
	}
	var a, b Val
	opHint := hint
	if isCmp {
		opHint = nil
	}
	if n.Op == token.SHL || n.Op == token.SHR {
		a = x.eval(env, n.X, hint, cl)
		b = x.eval(env, n.Y, types.Typ[types.Uint], cl)
	} else if isConstExpr(x, n.X) && !isConstExpr(x, n.Y) {
		b = x.eval(env, n.Y, opHint, cl)
		a = x.eval(env, n.X, typeOfVal(b), cl)
	} else {
		a = x.eval(env, n.X, opHint, cl)
		b = x.eval(env, n.Y, typeOfVal(a), cl)
	}
	at, bt := typeOfVal(a), typeOfVal(b)
	// nil comparisons with sorts other than Ref
	if ta, ok := a.(Term); ok {
		if tb, ok := b.(Term); ok && ta.Sort != tb.Sort {
			if tb.S == "ref_nil" {
				b = x.nilOf(ta.Sort)
			} else if ta.S == "ref_nil" {
				a = x.nilOf(tb.Sort)
			} else if n.Op != token.SHL && n.Op != token.SHR {
				x.specFail(cl, "operands of %s have different sorts in %s: %s vs %s", n.Op, exprStr(n), ta.Sort, tb.Sort)
			}
		}
	}
	var rt types.Type = at
	if isCmp {
		rt = types.Typ[types.Bool]
	}
	if at == nil {
		at = bt
	}
	return x.binop(st, nil, n.Op, a, b, at, bt, rt, token.NoPos)
}

func typeOfVal(v Val) types.Type {
	switch t := v.(type) {
	case Term:
		return t.Typ
	case *StructV:
		return t.Named
	}
	return nil
}

var convNames = map[string]types.Type{
	"int": types.Typ[types.Int], "int8": types.Typ[types.Int8], "int16": types.Typ[types.Int16], "int32": types.Typ[types.Int32], "int64": types.Typ[types.Int64],
	"uint": types.Typ[types.Uint], "uint8": types.Typ[types.Uint8], "uint16": types.Typ[types.Uint16], "uint32": types.Typ[types.Uint32], "uint64": types.Typ[types.Uint64],
	"uintptr": types.Typ[types.Uintptr], "byte": types.Typ[types.Byte], "rune": types.Typ[types.Rune],
	"float64": types.Typ[types.Float64], "float32": types.Typ[types.Float32], "string": types.Typ[types.String],
}

func (x *Exec) evalCall(env *specEnv, n *ast.CallExpr, hint types.Type, cl *Clause) Val {
	st := env.st
	fname := exprStr(n.Fun)
	arg := func(k int, h types.Type) Term { return x.evalTerm(env, n.Args[k], h, cl) }
	need := func(k int) {
		if len(n.Args) != k {
			x.specFail(cl, "%s expects %d arguments", fname, k)
		}
	}
	if ct, ok := convNames[fname]; ok {
		need(1)
		if cv, _, ok := x.constEval(n.Args[0]); ok {
			return x.constTerm(st, cv, ct)
		}
		v := x.eval(env, n.Args[0], nil, cl)
		ft := typeOfVal(v)
		if ft == nil {
			x.specFail(cl, "cannot convert untyped value in %s", exprStr(n))
		}
		return x.execConvert(st, v, ft, ct)
	}
	// conversion to a named package type, e.g. stopTest(x)
	if obj := x.pkg.Pkg.Scope().Lookup(fname); obj != nil {
		if tn, ok := obj.(*types.TypeName); ok && len(n.Args) == 1 {
			v := x.eval(env, n.Args[0], tn.Type(), cl)
			return x.retag(v, tn.Type())
		}
	}
	if uf, ok := x.specs.UFuns[fname]; ok {
		need(len(uf.Args))
		st.declareOnce("ufun_"+uf.Name, "(declare-fun "+uf.Name+" ("+strings.Join(uf.Args, " ")+") "+uf.Ret+")")
		var ts []Term
		for k := range uf.Args {
			var h types.Type
			if isBV(uf.Args[k]) {
				h = types.Typ[types.Uint64]
			}
			t := arg(k, h)
			if t.Sort != uf.Args[k] {
				x.specFail(cl, "%s: argument %d has sort %s, want %s", fname, k, t.Sort, uf.Args[k])
			}
			ts = append(ts, t)
		}
		r := app(uf.Ret, nil, uf.Name, ts...)
		if isBV(uf.Ret) {
			r.Typ = types.Typ[types.Uint64]
		}
		return r
	}
	if d, ok := x.specs.Defines[fname]; ok {
		need(len(d.Params))
		sub := *env
		sub.vars = map[string]Val{}
		sub.frame = nil
		sub.bound = env.bound
		for k, pn := range d.Params {
			sub.vars[pn] = x.eval(env, n.Args[k], nil, cl)
		}
		sub.oldVars = sub.vars
		return x.eval(&sub, d.Body, hint, cl)
	}
	switch fname {
	case "old":
		need(1)
		if env.old == nil {
			x.specFail(cl, "old() not available in %s", env.where)
		}
		sub := *env
		sub.inOld = true
		return x.eval(&sub, n.Args[0], hint, cl)
	case "oldat":
		// oldat(s, i): element i (evaluated now) of the slice s as it was at entry (header and contents)
		need(2)
		if env.old == nil {
			x.specFail(cl, "oldat() not available in %s", env.where)
		}
		idx := x.widen64(st, x.evalTerm(env, n.Args[1], types.Typ[types.Int], cl))
		sub := *env
		sub.inOld = true
		base, ok := x.eval(&sub, n.Args[0], nil, cl).(*SliceV)
		if !ok {
			x.specFail(cl, "oldat: %s is not a slice", exprStr(n.Args[0]))
		}
		return st.loadElem(env.old, base.Arr, app(sBV(64), nil, "bvadd", base.Off, idx), base.Elem)
	case "implies":
		need(2)
		return tImplies(x.evalBool(env, n.Args[0], cl), x.evalBool(env, n.Args[1], cl))
	case "iff":
		need(2)
		a, b := x.evalBool(env, n.Args[0], cl), x.evalBool(env, n.Args[1], cl)
		return Term{S: "(= " + a.S + " " + b.S + ")", Sort: sBool}
	case "ite":
		need(3)
		c := x.evalBool(env, n.Args[0], cl)
		a := x.evalTerm(env, n.Args[1], hint, cl)
		b := x.evalTerm(env, n.Args[2], a.Typ, cl)
		return tIte(c, a, b)
	case "forallu", "existsu":
		// forallu(x, body): x ranges over all uint64 values
		need(2)
		id, ok := n.Args[0].(*ast.Ident)
		if !ok {
			x.specFail(cl, "%s: first argument must be an identifier", fname)
		}
		bv := Term{S: id.Name + "!q", Sort: sBV(64), Typ: types.Typ[types.Uint64]}
		sub := *env
		sub.bound = map[string]Term{}
		for k, v := range env.bound {
			sub.bound[k] = v
		}
		sub.bound[id.Name] = bv
		save := st.x.noDef
		st.x.noDef = true
		body := x.evalBool(&sub, n.Args[1], cl)
		st.x.noDef = save
		q := "forall"
		if fname == "existsu" {
			q = "exists"
		}
		return Term{S: "(" + q + " ((" + bv.S + " (_ BitVec 64))) " + body.S + ")", Sort: sBool}
	case "trig":
		// uninterpreted marker used only to steer quantifier instantiation (see forallp)
		need(1)
		st.declareOnce("trig", "(declare-fun trig ((_ BitVec 64)) Bool)")
		return app(sBool, nil, "trig", x.widen64(st, arg(0, types.Typ[types.Int])))
	case "forallp":
		// forallp(i, lo, hi, pattern, body): forall with an explicit instantiation trigger
		need(5)
		id, ok := n.Args[0].(*ast.Ident)
		if !ok {
			x.specFail(cl, "forallp: first argument must be an identifier")
		}
		lo := x.widen64(st, arg(1, types.Typ[types.Int]))
		hi := x.widen64(st, arg(2, types.Typ[types.Int]))
		bv := Term{S: id.Name + "!q", Sort: sBV(64), Typ: types.Typ[types.Int]}
		sub := *env
		sub.bound = map[string]Term{}
		for k, v := range env.bound {
			sub.bound[k] = v
		}
		sub.bound[id.Name] = bv
		save := st.x.noDef
		st.x.noDef = true
		pat := x.eval(&sub, n.Args[3], nil, cl).(Term)
		body := x.evalBool(&sub, n.Args[4], cl)
		st.x.noDef = save
		rng := tAnd(app(sBool, nil, "bvsle", lo, bv), app(sBool, nil, "bvslt", bv, hi))
		return Term{S: "(forall ((" + bv.S + " (_ BitVec 64))) (! " + tImplies(rng, body).S + " :pattern (" + pat.S + ")))", Sort: sBool}
	case "existsw":
		// existsw(k, lo, hi, w, body): exists k in [lo, hi) with body. Where the clause is a goal of the function under
		// verification the witness w (which may use now(local)) is substituted - the solver does not have to guess it;
		// everywhere else (callers assuming the contract) it reads as the plain existential and w is not evaluated.
		need(5)
		id, ok := n.Args[0].(*ast.Ident)
		if !ok {
			x.specFail(cl, "existsw: first argument must be an identifier")
		}
		if !env.prove {
			plain := &ast.CallExpr{Fun: &ast.Ident{Name: "exists"}, Args: []ast.Expr{n.Args[0], n.Args[1], n.Args[2], n.Args[4]}}
			return x.evalCall(env, plain, hint, cl)
		}
		lo := x.widen64(st, arg(1, types.Typ[types.Int]))
		hi := x.widen64(st, arg(2, types.Typ[types.Int]))
		wenv := *env
		wenv.inOld = false // the witness is a value of the final state (a ghost or a local), also inside old(...)
		w := x.widen64(st, x.evalTerm(&wenv, n.Args[3], types.Typ[types.Int], cl))
		w.Typ = types.Typ[types.Int]
		sub := *env
		sub.bound = map[string]Term{}
		for k, v := range env.bound {
			sub.bound[k] = v
		}
		sub.bound[id.Name] = w
		body := x.evalBool(&sub, n.Args[4], cl)
		return tAnd(app(sBool, nil, "bvsle", lo, w), app(sBool, nil, "bvslt", w, hi), body)
	case "forall", "exists":
		// forall(i, lo, hi, body): lo <= i < hi as signed 64-bit ints; forallu for unsigned
		need(4)
		id, ok := n.Args[0].(*ast.Ident)
		if !ok {
			x.specFail(cl, "%s: first argument must be an identifier", fname)
		}
		lo := x.widen64(st, arg(1, types.Typ[types.Int]))
		hi := x.widen64(st, arg(2, types.Typ[types.Int]))
		bv := Term{S: id.Name + "!q", Sort: sBV(64), Typ: types.Typ[types.Int]}
		sub := *env
		sub.bound = map[string]Term{}
		for k, v := range env.bound {
			sub.bound[k] = v
		}
		sub.bound[id.Name] = bv
		// evaluate the body in a scratch copy of the script position: definitions made inside must not
		// mention the bound variable, so evaluate with inlined terms
		save := st.x.noDef
		st.x.noDef = true
		body := x.evalBool(&sub, n.Args[3], cl)
		st.x.noDef = save
		rng := tAnd(app(sBool, nil, "bvsle", lo, bv), app(sBool, nil, "bvslt", bv, hi))
		if fname == "forall" {
			inner := tImplies(rng, body).S
			// trigger: a select whose index is exactly the bound variable, when there is one
			if m := regexp.MustCompile(`\(select ([A-Za-z_][A-Za-z0-9_.!]*) ` + regexp.QuoteMeta(bv.S) + `\)`).FindString(inner); m != "" {
				inner = "(! " + inner + " :pattern (" + m + "))"
			}
			return Term{S: "(forall ((" + bv.S + " (_ BitVec 64))) " + inner + ")", Sort: sBool}
		}
		return Term{S: "(exists ((" + bv.S + " (_ BitVec 64))) " + tAnd(rng, body).S + ")", Sort: sBool}
	case "len", "cap":
		need(1)
		v := x.eval(env, n.Args[0], nil, cl)
		switch a := v.(type) {
		case *SliceV:
			if fname == "len" {
				return retyped(a.Len, types.Typ[types.Int])
			}
			return retyped(a.Cap, types.Typ[types.Int])
		case Term:
			if a.Sort == sStr {
				return Term{S: "(str_len " + a.S + ")", Sort: sBV(64), Typ: types.Typ[types.Int]}
			}
			if a.Sort == sRef && a.Typ != nil {
				if mt, ok := under(a.Typ).(*types.Map); ok {
					_, _, ln, _, _ := x.mapKeys(st, mt)
					return st.heapRead(env.snapshot(), ln, sBV(64), a, types.Typ[types.Int])
				}
			}
		}
		x.specFail(cl, "len of %s", exprStr(n.Args[0]))
	case "elemkind":
		// elemkind(g): the reflect.Kind of V for an argument whose static type is *Generator[V] with V a basic type
		// (read off the instantiated type at the call site: a fact of Go's type checker, not of the solver)
		need(1)
		gv, isT := x.eval(env, n.Args[0], nil, cl).(Term)
		if id, isId := n.Args[0].(*ast.Ident); isId && env.statics != nil && env.statics[id.Name] != nil {
			gv.Typ = env.statics[id.Name]
		}
		if !isT || gv.Typ == nil {
			x.specFail(cl, "elemkind: %s has no static type", exprStr(n.Args[0]))
		}
		pt, ok := types.Unalias(gv.Typ).(*types.Pointer)
		if !ok {
			x.specFail(cl, "elemkind: %s is not a pointer to a generator", exprStr(n.Args[0]))
		}
		nt, ok := types.Unalias(pt.Elem()).(*types.Named)
		if !ok || nt.TypeArgs() == nil || nt.TypeArgs().Len() != 1 {
			x.specFail(cl, "elemkind: %s is not an instantiated Generator[V]", exprStr(n.Args[0]))
		}
		bt, ok := types.Unalias(nt.TypeArgs().At(0)).(*types.Basic)
		if !ok {
			return Term{S: bvConst(0, 64), Sort: sBV(64), Typ: types.Typ[types.Uint]} // reflect.Invalid: not a basic type
		}
		kinds := map[types.BasicKind]uint64{types.Bool: 1, types.Int: 2, types.Int8: 3, types.Int16: 4, types.Int32: 5, types.Int64: 6,
			types.Uint: 7, types.Uint8: 8, types.Uint16: 9, types.Uint32: 10, types.Uint64: 11, types.Uintptr: 12,
			types.Float32: 13, types.Float64: 14, types.String: 24}
		return Term{S: bvConst(kinds[bt.Kind()], 64), Sort: sBV(64), Typ: types.Typ[types.Uint]}
	case "deref", "hasType":
		// deref(x, T): the *T held in interface value x; hasType(x, T): x holds a *T
		need(2)
		id, ok := n.Args[1].(*ast.Ident)
		if !ok {
			x.specFail(cl, "%s(x, TypeName)", fname)
		}
		pt := types.NewPointer(x.namedType(id.Name))
		v := arg(0, nil)
		if fname == "hasType" {
			tag := fmt.Sprint(x.typeTag(pt))
			return Term{S: "(and ((_ is any_ref) " + v.S + ") (= (any_ref_tag " + v.S + ") " + tag + "))", Sort: sBool}
		}
		return Term{S: "(any_ref_v " + v.S + ")", Sort: sRef, Typ: pt}
	case "now":
		// current value of a variable of the function (a parameter may have been re-assigned)
		need(1)
		id, ok := n.Args[0].(*ast.Ident)
		if !ok || env.frame == nil {
			x.specFail(cl, "now(x): x must be a variable of the function and the clause must be evaluated inside it")
		}
		sub := *env
		sub.inOld = false
		v, found := x.localByName(&sub, id.Name)
		if !found {
			// declared in the function but not (yet) allocated on this path: an unconstrained value
			for _, a := range env.frame.fn.Locals {
				if a.Comment == id.Name {
					return st.freshVal(a.Type().(*types.Pointer).Elem(), "unalloc_"+id.Name)
				}
			}
			x.specFail(cl, "now(%s): no such variable", id.Name)
		}
		return v
	case "addr":
		// address of a struct-valued field, e.g. addr(t.mu)
		need(1)
		lv := x.evalLoc(env, exprStr(n.Args[0]), &Contract{File: cl.File, Line: cl.Line})
		return st.asTerm(lv, nil)
	case "off":
		// offset of a slice within its backing array
		need(1)
		v := x.eval(env, n.Args[0], nil, cl)
		s, ok := v.(*SliceV)
		if !ok {
			x.specFail(cl, "off() of a non-slice")
		}
		return retyped(s.Off, types.Typ[types.Int])
	case "arr":
		// backing array of a slice
		need(1)
		v := x.eval(env, n.Args[0], nil, cl)
		s, ok := v.(*SliceV)
		if !ok {
			x.specFail(cl, "arr() of a non-slice")
		}
		return s.Arr
	case "mask":
		need(1)
		return app(sBV(64), types.Typ[types.Uint64], "mask", x.widen64(st, arg(0, types.Typ[types.Int])))
	case "len64":
		need(1)
		return app(sBV(64), types.Typ[types.Int], "len64", arg(0, types.Typ[types.Uint64]))
	case "isInvalidData", "isStopTest", "isTestError", "isOtherPanic":
		need(1)
		kind := map[string]string{"isInvalidData": "invalidData", "isStopTest": "stopTest", "isTestError": "testError", "isOtherPanic": "other"}[fname]
		return x.panicKind(st, arg(0, nil), kind)
	case "isRef":
		need(1)
		a := arg(0, nil)
		return Term{S: "((_ is any_ref) " + a.S + ")", Sort: sBool}
	case "strOf":
		// payload of a string-kinded interface value
		need(1)
		a := arg(0, nil)
		return Term{S: "(any_str_v " + a.S + ")", Sort: sStr, Typ: types.Typ[types.String]}
	case "refOf":
		need(1)
		a := arg(0, nil)
		return Term{S: "(any_ref_v " + a.S + ")", Sort: sRef}
	case "bvOf":
		// bvOf(x): the 64-bit scalar held in the interface value x (integers are widened when boxed)
		need(1)
		a := arg(0, nil)
		return Term{S: "(any_bv_v " + a.S + ")", Sort: sBV(64), Typ: types.Typ[types.Uint64]}
	case "asAny":
		// asAny(kind, v): the interface value holding v with dynamic type kind (a package type name)
		need(2)
		id, ok := n.Args[0].(*ast.Ident)
		if !ok {
			x.specFail(cl, "asAny(kind, v)")
		}
		v := x.eval(env, n.Args[1], nil, cl)
		return x.makeInterface(st, v, x.namedTypeMaybePtr(id.Name))
	case "fresh":
		need(1)
		// the address of a field of an existing object or of a package-level variable is never a fresh allocation;
		// the address of a local that does not escape is storage of this very call
		switch x.eval(env, n.Args[0], nil, cl).(type) {
		case FieldPtr, GlobalPtr:
			return tFalse
		case CellPtr:
			return tTrue
		}
		r := arg(0, nil)
		st.declareOnce("is_fresh", "(declare-fun is_fresh (Ref) Int)")
		// fresh(result): allocated during the call: distinct from everything the caller had
		if env.callSite {
			x.freshCounter++
			return Term{S: fmt.Sprintf("(= (is_fresh %s) %d)", r.S, x.freshCounter), Sort: sBool}
		}
		return Term{S: "(> (is_fresh " + r.S + ") 0)", Sort: sBool}
	case "isNaN":
		need(1)
		return Term{S: "(fp.isNaN " + arg(0, types.Typ[types.Float64]).S + ")", Sort: sBool}
	case "isInf":
		need(1)
		return Term{S: "(fp.isInfinite " + arg(0, types.Typ[types.Float64]).S + ")", Sort: sBool}
	case "isNeg":
		need(1)
		return Term{S: "(fp.isNegative " + arg(0, types.Typ[types.Float64]).S + ")", Sort: sBool}
	case "f64bits":
		// bit pattern of a non-NaN float
		need(1)
		f := arg(0, types.Typ[types.Float64])
		b := st.fresh("bits", sBV(64), types.Typ[types.Uint64])
		st.assume(tSame(Term{S: "((_ to_fp 11 53) " + b.S + ")", Sort: sF64}, f))
		return b
	case "f32bits":
		need(1)
		f := arg(0, types.Typ[types.Float32])
		b := st.fresh("bits", sBV(32), types.Typ[types.Uint32])
		st.assume(tSame(Term{S: "((_ to_fp 8 24) " + b.S + ")", Sort: sF32}, f))
		return b
	case "f64frombits":
		need(1)
		return Term{S: "((_ to_fp 11 53) " + arg(0, types.Typ[types.Uint64]).S + ")", Sort: sF64, Typ: types.Typ[types.Float64]}
	case "f32frombits":
		need(1)
		return Term{S: "((_ to_fp 8 24) " + arg(0, types.Typ[types.Uint32]).S + ")", Sort: sF32, Typ: types.Typ[types.Float32]}
	case "has":
		// has(m, k): key present in map
		need(2)
		m := arg(0, nil)
		mt, ok := under(m.Typ).(*types.Map)
		if !ok {
			x.specFail(cl, "has: not a map")
		}
		hasK, _, _, ks, _ := x.mapKeys(st, mt)
		k := arg(1, mt.Key())
		return tSelect(st.heapRead(env.snapshot(), hasK, sArr(ks, sBool), m, nil), k)
	case "sel":
		need(2)
		a := arg(0, nil)
		i := arg(1, nil)
		return tSelect(a, i)
	case "smt":
		// smt("fname", args...) applies a prelude function; result sort from table
		if len(n.Args) < 1 {
			x.specFail(cl, "smt(name, args...)")
		}
		lit, ok := n.Args[0].(*ast.BasicLit)
		if !ok {
			x.specFail(cl, "smt: first argument must be a string literal")
		}
		name, _ := strconv.Unquote(lit.Value)
		var ts []Term
		for k := 1; k < len(n.Args); k++ {
			ts = append(ts, arg(k, nil))
		}
		rs, ok := smtFuncSorts[name]
		if !ok {
			x.specFail(cl, "smt: unknown function %s", name)
		}
		return app(rs, nil, name, ts...)
	}
	x.specFail(cl, "unknown spec function %s", fname)
	return nil
}

var smtFuncSorts = map[string]string{
	"log1p": sF64,
}

func (x *Exec) namedTypeMaybePtr(name string) types.Type {
	if strings.HasPrefix(name, "ptr_") {
		return types.NewPointer(x.namedType(name[4:]))
	}
	return x.namedType(name)
}

// evalLoc evaluates a modifies-location to an lvalue descriptor.
func (x *Exec) evalLoc(env *specEnv, loc string, c *Contract) Val {
	cl := &Clause{File: c.File, Line: c.Line, Src: loc}
	if strings.HasPrefix(loc, "elems(") && strings.HasSuffix(loc, ")") {
		e, err := parseExprCached(loc[6 : len(loc)-1])
		if err != nil {
			x.specFail(cl, "bad location %s", loc)
		}
		v := x.eval(env, e, nil, cl)
		s, ok := v.(*SliceV)
		if !ok {
			x.specFail(cl, "elems() of a non-slice in %s", loc)
		}
		return elemsLoc{arr: s.Arr, elem: s.Elem}
	}
	if strings.HasPrefix(loc, "map(") && strings.HasSuffix(loc, ")") {
		return mapLoc{}
	}
	if strings.HasPrefix(loc, "stream(") && strings.HasSuffix(loc, ")") {
		e, err := parseExprCached(loc[7 : len(loc)-1])
		if err != nil {
			x.specFail(cl, "bad location %s", loc)
		}
		v := x.evalTerm(env, e, nil, cl)
		if v.Sort == sAny {
			return streamLoc{ref: Term{S: "(any_ref_v " + v.S + ")", Sort: sRef}, iface: v}
		}
		return streamLoc{ref: v}
	}
	if strings.HasPrefix(loc, "all(") && strings.HasSuffix(loc, ")") {
		e, err := parseExprCached(loc[4 : len(loc)-1])
		if err != nil {
			x.specFail(cl, "bad location %s", loc)
		}
		var v Val
		func() {
			defer func() {
				if rr := recover(); rr != nil {
					v = nil
				}
			}()
			if fp, ok := x.evalLoc(env, loc[4:len(loc)-1], c).(FieldPtr); ok {
				ft := fp.S.Field(fp.Idx).Type()
				if _, isStruct := under(ft).(*types.Struct); isStruct {
					r := env.st.asTerm(fp, nil)
					r.Typ = types.NewPointer(ft)
					v = r
				}
			}
		}()
		if v == nil {
			v = x.eval(env, e, nil, cl)
		}
		r, ok := v.(Term)
		if !ok || r.Typ == nil {
			x.specFail(cl, "all() needs a pointer to struct in %s", loc)
		}
		pt := under(r.Typ).(*types.Pointer).Elem()
		return wholeStructLoc{Ref: r, S: under(pt).(*types.Struct), SN: structName(pt)}
	}
	e, err := parseExprCached(loc)
	if err != nil {
		x.specFail(cl, "bad location %s", loc)
	}
	switch n := e.(type) {
	case *ast.SelectorExpr:
		var base Val
		if inner, isSel := n.X.(*ast.SelectorExpr); isSel {
			// a.b.f where a.b is a struct-valued field: address through the embedding reference
			func() {
				defer func() {
					if r := recover(); r != nil {
						base = nil
					}
				}()
				if fp, ok := x.evalLoc(env, exprStr(inner), c).(FieldPtr); ok {
					ft := fp.S.Field(fp.Idx).Type()
					if _, isStruct := under(ft).(*types.Struct); isStruct {
						r := env.st.asTerm(fp, nil)
						r.Typ = types.NewPointer(ft)
						base = r
					}
				}
			}()
		}
		if base == nil {
			base = x.eval(env, n.X, nil, cl)
		}
		var ref Term
		switch b := base.(type) {
		case Term:
			ref = b
		case FieldPtr, GlobalPtr:
			ref = env.st.asTerm(b, nil)
		default:
			x.specFail(cl, "location %s: base is not a pointer", loc)
		}
		if ref.Typ == nil {
			x.specFail(cl, "location %s: untyped base", loc)
		}
		pt, ok := under(ref.Typ).(*types.Pointer)
		if !ok {
			x.specFail(cl, "location %s: base is not a pointer", loc)
		}
		su := under(pt.Elem()).(*types.Struct)
		sn := structName(pt.Elem())
		if i, ok := fieldIndex(su, n.Sel.Name); ok {
			return FieldPtr{Ref: ref, S: su, SN: sn, Idx: i}
		}
		for i := 0; i < su.NumFields(); i++ {
			f := su.Field(i)
			if f.Embedded() {
				if es, ok := under(f.Type()).(*types.Struct); ok {
					if j, ok := fieldIndex(es, n.Sel.Name); ok {
						er := env.st.embRef(sn, f.Name(), ref)
						return FieldPtr{Ref: er, S: es, SN: structName(f.Type()), Idx: j}
					}
				}
			}
		}
		x.specFail(cl, "location %s: no field %s", loc, n.Sel.Name)
	case *ast.IndexExpr:
		if id, ok := n.X.(*ast.Ident); ok {
			if _, isGhost := x.ghostSort(id.Name); isGhost {
				idx := x.evalTerm(env, n.Index, nil, cl)
				return ghostIdxLoc{name: id.Name, idx: idx}
			}
		}
	}
	x.specFail(cl, "unsupported modifies location %s", loc)
	return nil
}

var exprCache = map[string]ast.Expr{}

func parseExprCached(s string) (ast.Expr, error) {
	if e, ok := exprCache[s]; ok {
		return e, nil
	}
	e, err := parserParseExpr(s)
	if err == nil {
		exprCache[s] = e
	}
	return e, err
}
