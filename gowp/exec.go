package main

// Path-based symbolic execution of go/ssa (NaiveForm) function bodies against contracts.

import (
	"fmt"
	"go/ast"
	"go/constant"
	"go/token"
	"go/types"
	"math"
	"os"
	"regexp"
	"sort"
	"strconv"
	"strings"

	"golang.org/x/tools/go/packages"
	"golang.org/x/tools/go/ssa"
)

type Obligation struct {
	Name   string
	Func   string
	Kind   string
	Tags   []string
	Script *scriptNode
	Goal   Term
	Pos    string
	Path   []string
	Desc   string
	Inputs []inputSym
	Draws  []string
	// cover-call obligations: the script before the callee's postconditions were assumed (to tell a contradictory
	// contract from a call site that is unreachable anyway)
	PreScript *scriptNode
	// results
	Res solveResult
}

type inputSym struct {
	Name string // Go-level name (parameter)
	Sym  string // SMT symbol
	Sort string
	Typ  string
}

type Exec struct {
	prog           *ssa.Program
	pkg            *ssa.Package
	tpkg           *packages.Package
	fset           *token.FileSet
	specs          *SpecSet
	symCounter     int
	epochCounter   int
	freshCounter   int
	cellCounter    int
	closures       map[string]*ClosureV
	funcs          map[string]*ssa.Function
	obls           []*Obligation
	oblCount       map[string]int
	curFunc        string
	curContract    *Contract
	curInputs      []inputSym
	abstracted     map[string]int // calls handled by dependency contracts / defaults
	inlined        map[string]int
	errors         []string
	maxSteps       int
	maxPaths       int
	paths          int
	strLits        map[string]string
	tagIDs         map[string]int
	assumedTags    map[string]bool // clauses tagged ONLY with other properties are assumed, not checked (nil = check all)
	onlyTag        string
	loopInfo       map[*ssa.Function]*loopInfo
	debug          bool
	usedContracts  map[string]bool
	warnings       []string
	noDef          bool
	loopHeapStored map[*ssa.Alloc]bool
	siteNames      map[*ssa.Function]map[token.Pos]string
	siteCanon      map[*ssa.Function]map[token.Pos]string
	privBox        map[*ssa.Alloc]bool
	curLoopHead    *ssa.BasicBlock
	embCodes       map[string]int
	given          map[string]Val
	curFn          *ssa.Function
	pendingWitness *witnessReq
	tier           string
	pdoms          map[*ssa.Function]*pdomInfo
	noMerge        bool
	merges         int
}

func (x *Exec) nextEpoch() int { x.epochCounter++; return x.epochCounter }

func newExec(prog *ssa.Program, pkg *ssa.Package, tpkg *packages.Package, specs *SpecSet) *Exec {
	return &Exec{
		prog: prog, pkg: pkg, tpkg: tpkg, fset: prog.Fset, specs: specs,
		closures: map[string]*ClosureV{}, funcs: map[string]*ssa.Function{},
		oblCount: map[string]int{}, abstracted: map[string]int{}, inlined: map[string]int{},
		maxSteps: 20000, maxPaths: 20000, strLits: map[string]string{}, tagIDs: map[string]int{},
		loopInfo: map[*ssa.Function]*loopInfo{}, debug: os.Getenv("GOWP_DEBUG") != "",
		embCodes: map[string]int{}, usedContracts: map[string]bool{}, pdoms: map[*ssa.Function]*pdomInfo{}, noMerge: os.Getenv("GOWP_NOMERGE") != "",
	}
}

// callSites maps the position (left parenthesis) of every call expression in fn's source to its site name
// "<callee expression text>#<ordinal among calls with the same text>".
func (x *Exec) callSites(fn *ssa.Function) map[token.Pos]string {
	if x.siteNames == nil {
		x.siteNames = map[*ssa.Function]map[token.Pos]string{}
	}
	if m, ok := x.siteNames[fn]; ok {
		return m
	}
	m := map[token.Pos]string{}
	x.siteNames[fn] = m
	syn := fn.Syntax()
	if syn == nil {
		return m
	}
	type cs struct {
		pos  token.Pos
		text string
	}
	var all []cs
	ast.Inspect(syn, func(n ast.Node) bool {
		if c, ok := n.(*ast.CallExpr); ok {
			all = append(all, cs{c.Lparen, types.ExprString(c.Fun)})
		}
		return true
	})
	sort.Slice(all, func(i, j int) bool { return all[i].pos < all[j].pos })
	cnt := map[string]int{}
	for _, c := range all {
		m[c.pos] = fmt.Sprintf("%s#%d", c.text, cnt[c.text])
		cnt[c.text]++
	}
	return m
}

// callSitesCanon names the same call expressions by what is called instead of how it is written:
// "(*maphash.Hash).Sum64#0", "bitStream.drawBits#1", "os.Rename#0" - stable under renamed locals and receivers.
func (x *Exec) callSitesCanon(fn *ssa.Function) map[token.Pos]string {
	if x.siteCanon == nil {
		x.siteCanon = map[*ssa.Function]map[token.Pos]string{}
	}
	if m, ok := x.siteCanon[fn]; ok {
		return m
	}
	m := map[token.Pos]string{}
	x.siteCanon[fn] = m
	syn := fn.Syntax()
	if syn == nil || x.tpkg == nil || x.tpkg.TypesInfo == nil {
		return m
	}
	info := x.tpkg.TypesInfo
	home := x.pkg.Pkg
	type cs struct {
		pos  token.Pos
		name string
	}
	var all []cs
	ast.Inspect(syn, func(n ast.Node) bool {
		c, ok := n.(*ast.CallExpr)
		if !ok {
			return true
		}
		fun := ast.Unparen(c.Fun)
		if ix, ok := fun.(*ast.IndexExpr); ok {
			fun = ix.X
		}
		if ix, ok := fun.(*ast.IndexListExpr); ok {
			fun = ix.X
		}
		var obj types.Object
		switch f := fun.(type) {
		case *ast.Ident:
			obj = info.Uses[f]
		case *ast.SelectorExpr:
			if sel := info.Selections[f]; sel != nil {
				obj = sel.Obj()
			} else {
				obj = info.Uses[f.Sel]
			}
		}
		tf, ok := obj.(*types.Func)
		if !ok {
			return true
		}
		name := tf.Name()
		if sig, ok := tf.Type().(*types.Signature); ok && sig.Recv() != nil {
			rt := sig.Recv().Type()
			ptr := ""
			if p, ok := rt.(*types.Pointer); ok {
				ptr = "*"
				rt = p.Elem()
			}
			rt = types.Unalias(rt)
			tn := rt.String()
			if nt, ok := rt.(*types.Named); ok {
				tn = nt.Obj().Name()
				if nt.Obj().Pkg() != nil && nt.Obj().Pkg() != home {
					tn = nt.Obj().Pkg().Name() + "." + tn
				}
				if _, isIface := nt.Underlying().(*types.Interface); isIface {
					name = tn + "." + name
					all = append(all, cs{c.Lparen, name})
					return true
				}
			}
			name = "(" + ptr + tn + ")." + name
		} else if tf.Pkg() != nil && tf.Pkg() != home {
			name = tf.Pkg().Name() + "." + name
		}
		all = append(all, cs{c.Lparen, name})
		return true
	})
	sort.Slice(all, func(i, j int) bool { return all[i].pos < all[j].pos })
	cnt := map[string]int{}
	for _, c := range all {
		m[c.pos] = fmt.Sprintf("%s#%d", c.name, cnt[c.name])
		cnt[c.name]++
	}
	return m
}

// siteAnns returns the annotations for the call at pos when it belongs to the function under verification.
func (x *Exec) siteAnns(st *State, fr *Frame, pos token.Pos) (string, []*SiteAnn) {
	if x.curContract == nil || len(x.curContract.Sites) == 0 {
		return "", nil
	}
	sfn := fr.fn
	if len(st.frames) != 1 {
		// a call written inside a function literal of the function under verification, executed inline
		// (deferred recover closures): its site belongs to the enclosing function's source text
		if len(st.frames) != 2 || fr.fn.Parent() == nil || fr.fn.Parent() != st.frames[0].fn {
			return "", nil
		}
		sfn = st.frames[0].fn
	}
	name, ok := x.callSites(sfn)[pos]
	if !ok {
		return "", nil
	}
	anns := x.curContract.Sites[name]
	if cn, ok := x.callSitesCanon(sfn)[pos]; ok && cn != name {
		if more := x.curContract.Sites[cn]; len(more) > 0 {
			if len(anns) == 0 {
				name = cn
			}
			anns = append(append([]*SiteAnn(nil), anns...), more...)
		}
	}
	return name, anns
}

// explicitArgs returns the call's arguments as written in the source (without a method receiver).
func explicitArgs(cc *ssa.CallCommon) []ssa.Value {
	if cc.IsInvoke() {
		return cc.Args
	}
	if f := cc.StaticCallee(); f != nil && f.Signature.Recv() != nil && len(cc.Args) > 0 {
		return cc.Args[1:]
	}
	return cc.Args
}

func (x *Exec) siteEnvCall(st *State, fr *Frame, cc *ssa.CallCommon) *specEnv {
	env := x.siteEnv(st, fr, cc.Pos())
	if f := cc.StaticCallee(); !cc.IsInvoke() && f != nil && f.Signature.Recv() != nil && len(cc.Args) > 0 {
		func() {
			defer func() { recover() }()
			env.vars["recv"] = x.val(st, fr, cc.Args[0]) // the method receiver
		}()
	} else if cc.IsInvoke() {
		func() {
			defer func() { recover() }()
			env.vars["recv"] = x.val(st, fr, cc.Value)
		}()
	} else if cc.StaticCallee() == nil {
		func() {
			defer func() { recover() }()
			env.vars["fnval"] = x.val(st, fr, cc.Value) // the function value being called
		}()
	}
	for k, a := range explicitArgs(cc) {
		func() {
			defer func() { recover() }()
			env.vars[fmt.Sprintf("arg%d", k)] = x.val(st, fr, a)
			// boxedK: the value converted to an interface for argument K at this very call (a boxed slice keeps only
			// its array in the interface term; its length and offset are read off the operand)
			if mi, ok := a.(*ssa.MakeInterface); ok {
				env.vars[fmt.Sprintf("boxed%d", k)] = x.val(st, fr, mi.X)
			}
		}()
	}
	return env
}

func (x *Exec) siteEnv(st *State, fr *Frame, pos token.Pos) *specEnv {
	env := &specEnv{x: x, st: st, vars: map[string]Val{}, frame: fr, pos: pos, old: st.entry, where: "call-site annotation in " + fr.fn.Name()}
	env.oldVars = map[string]Val{}
	for _, p := range fr.fn.Params {
		env.oldVars[p.Name()] = fr.regs[p]
	}
	return env
}

// funcKey computes the contract key of an ssa function.
func funcKey(fn *ssa.Function, home *types.Package) string {
	if o := fn.Origin(); o != nil {
		fn = o
	}
	if fn.Parent() != nil {
		// anonymous function
		idx := 0
		for i, a := range fn.Parent().AnonFuncs {
			if a == fn {
				idx = i
			}
		}
		return fmt.Sprintf("%s$%d", funcKey(fn.Parent(), home), idx+1)
	}
	name := fn.Name()
	pkgPrefix := ""
	if fn.Pkg != nil && fn.Pkg.Pkg != home {
		pkgPrefix = fn.Pkg.Pkg.Name() + "."
	} else if fn.Pkg == nil && fn.Object() != nil && fn.Object().Pkg() != nil && fn.Object().Pkg() != home {
		pkgPrefix = fn.Object().Pkg().Name() + "."
	}
	if recv := fn.Signature.Recv(); recv != nil {
		rt := recv.Type()
		ptr := ""
		if p, ok := rt.(*types.Pointer); ok {
			ptr = "*"
			rt = p.Elem()
		}
		rt = types.Unalias(rt)
		tn := rt.String()
		if n, ok := rt.(*types.Named); ok {
			tn = n.Obj().Name()
			if n.Obj().Pkg() != nil && n.Obj().Pkg() != home {
				tn = n.Obj().Pkg().Name() + "." + tn
			}
		}
		return "(" + ptr + tn + ")." + strings.TrimSuffix(name, "$bound")
	}
	return pkgPrefix + name
}

// ---------------------------------------------------------------------------------------------
// Loops

type loopInfo struct {
	heads  []*ssa.BasicBlock                            // in block-index order
	ord    map[*ssa.BasicBlock]int                      // ordinal
	blocks map[*ssa.BasicBlock]map[*ssa.BasicBlock]bool // natural loop body per head
}

func (x *Exec) loops(fn *ssa.Function) *loopInfo {
	if li, ok := x.loopInfo[fn]; ok {
		return li
	}
	li := &loopInfo{ord: map[*ssa.BasicBlock]int{}, blocks: map[*ssa.BasicBlock]map[*ssa.BasicBlock]bool{}}
	for _, b := range fn.Blocks {
		for _, s := range b.Succs {
			if s.Dominates(b) { // back edge b -> s
				body := li.blocks[s]
				if body == nil {
					body = map[*ssa.BasicBlock]bool{s: true}
					li.blocks[s] = body
				}
				// natural loop: all nodes that can reach b without passing through s
				stack := []*ssa.BasicBlock{b}
				for len(stack) > 0 {
					n := stack[len(stack)-1]
					stack = stack[:len(stack)-1]
					if body[n] {
						continue
					}
					body[n] = true
					stack = append(stack, n.Preds...)
				}
			}
		}
	}
	for h := range li.blocks {
		li.heads = append(li.heads, h)
	}
	sort.Slice(li.heads, func(i, j int) bool { return li.heads[i].Index < li.heads[j].Index })
	// order by source position of the loop when available
	loopPos := func(h *ssa.BasicBlock) token.Pos {
		best := token.Pos(math.MaxInt32)
		for b := range li.blocks[h] {
			if p := blockPos(b); p < best {
				best = p
			}
		}
		return best
	}
	sort.SliceStable(li.heads, func(i, j int) bool { return loopPos(li.heads[i]) < loopPos(li.heads[j]) })
	for i, h := range li.heads {
		li.ord[h] = i
	}
	x.loopInfo[fn] = li
	return li
}

func blockPos(b *ssa.BasicBlock) token.Pos {
	// smallest valid position in the loop head and its body start
	best := token.Pos(math.MaxInt32)
	for _, in := range b.Instrs {
		if p := in.Pos(); p.IsValid() && p < best {
			best = p
		}
		if d, ok := in.(*ssa.DebugRef); ok && d.Expr != nil {
			if p := d.Expr.Pos(); p.IsValid() && p < best {
				best = p
			}
		}
	}
	return best
}

// ---------------------------------------------------------------------------------------------
// Top-level: verify one function against its contract

func (x *Exec) lookupFunc(key string) *ssa.Function {
	// anonymous function: parent$N
	if i := strings.LastIndex(key, "$"); i > 0 {
		if n, err := strconv.Atoi(key[i+1:]); err == nil {
			if parent := x.lookupFunc(key[:i]); parent != nil && n >= 1 && n <= len(parent.AnonFuncs) {
				return parent.AnonFuncs[n-1]
			}
			return nil
		}
	}
	// package-level function or method by key
	if fn := x.pkg.Func(key); fn != nil {
		return fn
	}
	if strings.HasPrefix(key, "(") {
		end := strings.Index(key, ").")
		if end < 0 {
			return nil
		}
		tn := strings.TrimPrefix(key[1:end], "*")
		ptr := strings.HasPrefix(key[1:end], "*")
		mn := key[end+2:]
		m, ok := x.pkg.Members[tn]
		if !ok {
			return nil
		}
		t, ok := m.(*ssa.Type)
		if !ok {
			return nil
		}
		var T types.Type = t.Type()
		if ptr {
			T = types.NewPointer(T)
		}
		sel := x.prog.MethodSets.MethodSet(T).Lookup(x.pkg.Pkg, mn)
		if sel == nil {
			return nil
		}
		fn := x.prog.MethodValue(sel)
		if fn == nil {
			// generic type: find via object
			if obj, ok := sel.Obj().(*types.Func); ok {
				fn = x.prog.FuncValue(obj)
			}
		}
		if fn != nil && fn.Origin() != nil {
			fn = fn.Origin()
		}
		return fn
	}
	return nil
}

// VerifyCaptures checks only the closure frame of a (trusted) contract.
func (x *Exec) VerifyCaptures(key string) error {
	c := x.specs.Contracts[key]
	fn := x.lookupFunc(key)
	if c == nil || fn == nil || c.Captures == nil {
		return fmt.Errorf("cannot bind closure-frame contract %s", key)
	}
	x.curFunc = key
	x.curContract = c
	x.curInputs = nil
	st := &State{x: x, heap: map[string]Term{}, cells: map[*Cell]Val{}, ghost: map[string]Term{}, declared: map[string]bool{}, interfered: map[string][]Term{}}
	allowed := map[string]bool{}
	for _, n := range splitLocs(c.Captures.Src) {
		allowed[n] = true
	}
	for _, fv := range fn.FreeVars {
		goal := tTrue
		if !allowed[fv.Name()] {
			goal = tFalse
		}
		x.oblige(st, fmt.Sprintf("%s/captures:%s", key, fv.Name()), "closure-frame", c.Captures.Tags, goal, fn.Pos(), "the function literal captures only "+c.Captures.Src+" (captured: "+fv.Name()+")")
	}
	return nil
}

func (x *Exec) VerifyFunc(key string) (err error) {
	c := x.specs.Contracts[key]
	if c == nil {
		return fmt.Errorf("no contract for %s", key)
	}
	if c.Trusted != "" && c.NoStore != nil && c.Captures == nil {
		fn := x.lookupFunc(key)
		if fn == nil {
			return fmt.Errorf("cannot bind contract: function %s not found in /repo", key)
		}
		x.curFunc = key
		x.curContract = c
		x.curInputs = nil
		st := &State{x: x, heap: map[string]Term{}, cells: map[*Cell]Val{}, ghost: map[string]Term{}, declared: map[string]bool{}, interfered: map[string][]Term{}}
		x.obligeNoStore(st, key, c, fn)
		return nil
	}
	if c.Trusted != "" && c.Captures != nil {
		return x.VerifyCaptures(key)
	}
	fnKey := key
	if i := strings.Index(key, "@"); i >= 0 {
		fnKey = key[:i] // scenario contract: a second, specialised contract of the same function
	}
	fn := x.lookupFunc(fnKey)
	if fn == nil {
		return fmt.Errorf("cannot bind contract: function %s not found in /repo", key)
	}
	if len(fn.Blocks) == 0 {
		return fmt.Errorf("function %s has no body", key)
	}
	x.curFunc = key
	x.curContract = c
	x.curFn = fn
	if len(c.Sites) > 0 {
		have := map[string]bool{}
		for _, n := range x.callSites(fn) {
			have[n] = true
		}
		for _, n := range x.callSitesCanon(fn) {
			have[n] = true
		}
		for _, site := range sortedKeys(c.Sites) {
			if !have[site] {
				obligation := false
				for _, a := range c.Sites[site] {
					if a.Kind != "set" && a.Kind != "onpanic" {
						obligation = true
					}
				}
				if obligation {
					// reported as a machinery error, but the rest of the function is still verified: a violated
					// obligation elsewhere in it is the more useful report (and dominates the exit code)
					msg := fmt.Sprintf("cannot bind call-site annotation %q of %s: no such call in the function", site, key)
					defer func() {
						if err == nil {
							err = fmt.Errorf("%s", msg)
						}
					}()
					continue
				}
				// a ghost assignment at a call that no longer exists simply never happens; the obligations that
				// read the ghost decide (they fail unless they hold without it)
				x.warnings = append(x.warnings, fmt.Sprintf("ghost assignment at %q of %s is not bound: no such call in the function", site, key))
			}
		}
	}
	for k := range c.LoopInv {
		if k >= len(x.loops(fn).heads) {
			// invariants of a loop that is no longer there have nothing to hold at; the remaining obligations
			// of the contract decide
			x.warnings = append(x.warnings, fmt.Sprintf("invariants of loop %d of %s are not bound: the function has %d loops", k, key, len(x.loops(fn).heads)))
		}
	}
	defer func() {
		if r := recover(); r != nil {
			if u, ok := r.(unsupported); ok {
				err = fmt.Errorf("%s: outside the modelled subset: %s", key, u.msg)
				return
			}
			panic(r)
		}
	}()
	st := &State{x: x, heap: map[string]Term{}, cells: map[*Cell]Val{}, ghost: map[string]Term{}, declared: map[string]bool{}, interfered: map[string][]Term{}}
	x.declareGhosts(st)
	fr := &Frame{fn: fn, regs: map[ssa.Value]Val{}, cut: map[*ssa.BasicBlock]*loopCut{}}
	x.curInputs = nil
	for _, p := range fn.Params {
		v := st.freshVal(p.Type(), "in_"+p.Name())
		fr.regs[p] = v
		x.recordInput(p.Name(), v, p.Type())
		x.markEntryRefs(st, v)
	}
	for _, fv := range fn.FreeVars {
		v := st.freshVal(fv.Type(), "fv_"+fv.Name())
		fr.bind = append(fr.bind, v)
	}
	for i, fv := range fn.FreeVars {
		fr.fvEntry = append(fr.fvEntry, x.freeVarValue(st, fr, i, fv)) // value of the captured variable at entry
	}
	st.frames = []*Frame{fr}
	fr.block = fn.Blocks[0]
	st.entry = st.snap()
	x.given = map[string]Val{}
	for _, g := range c.Given {
		t := st.fresh("given_"+g.Name, g.Sort, nil)
		if isBV(g.Sort) {
			t.Typ = types.Typ[types.Uint64]
		}
		x.given[g.Name] = t
		x.curInputs = append(x.curInputs, inputSym{Name: "given " + g.Name, Sym: t.S, Sort: g.Sort, Typ: "given"})
	}
	// assume requires
	env := x.contractEnvAtEntry(st, fr, c)
	for _, r := range c.Requires {
		if r.Assume {
			// an entry assumption (assumes-pre / defines) about something that no longer exists in the function is
			// dropped, not an error: assuming less can only make the obligations harder
			dropped := false
			func() {
				defer func() {
					if rec := recover(); rec != nil {
						se, isSpec := rec.(specError)
						if !isSpec || !strings.Contains(se.msg, "unknown identifier") {
							panic(rec)
						}
						dropped = true
						x.warnings = append(x.warnings, "entry assumption dropped ("+se.msg+")")
					}
				}()
				st.assume(x.evalBool(env, r.Expr, r))
			}()
			_ = dropped
			continue
		}
		t := x.evalBool(env, r.Expr, r)
		st.assume(t)
	}
	st.entry = st.snap()
	// closure frame: a function literal may capture only the listed variables (anything else would be hidden,
	// possibly shared, state of the value it implements)
	if cp := c.Captures; cp != nil && !x.assumedOnly(cp) {
		allowed := map[string]bool{}
		for _, n := range splitLocs(cp.Src) {
			allowed[n] = true
		}
		for _, fv := range fn.FreeVars {
			goal := tTrue
			if !allowed[fv.Name()] {
				goal = tFalse
			}
			x.oblige(st, fmt.Sprintf("%s/captures:%s", key, fv.Name()), "closure-frame", cp.Tags, goal, fn.Pos(), "the function literal captures only "+cp.Src+" (captured: "+fv.Name()+")")
		}
	}
	if c.NoStore != nil && !x.assumedOnly(c.NoStore) {
		x.obligeNoStore(st, key, c, fn)
	}
	// global frame: the body (and its literals) mentions no package-level variable of its package beyond the listed
	// ones - process-wide state a function consults or keeps is part of its contract
	if gp := c.Globals; gp != nil && !x.assumedOnly(gp) {
		allowed := map[string]bool{}
		for _, n := range splitLocs(gp.Src) {
			allowed[n] = true
		}
		for _, g := range mentionedGlobals(fn) {
			goal := tTrue
			if !allowed[g] {
				goal = tFalse
			}
			x.oblige(st, fmt.Sprintf("%s/globals:%s", key, g), "global-frame", gp.Tags, goal, fn.Pos(), "the function mentions only the package-level variables "+gp.Src+" (mentioned: "+g+")")
		}
	}
	// vacuity guard: the precondition must be satisfiable
	x.addObligation(st, &Obligation{Name: key + "/cover-requires", Kind: "cover", Goal: tFalse, Desc: "precondition satisfiable (must be sat)"})
	for _, cv := range c.Covers {
		t := x.evalBool(env, cv.Expr, cv)
		x.addObligation(st, &Obligation{Name: fmt.Sprintf("%s/cover#%d", key, cv.Ord), Kind: "cover", Goal: tNot(t), Desc: "cover: " + cv.Src})
	}
	x.run(st)
	return nil
}

func (x *Exec) recordInput(name string, v Val, t types.Type) {
	switch tv := v.(type) {
	case Term:
		x.curInputs = append(x.curInputs, inputSym{Name: name, Sym: tv.S, Sort: tv.Sort, Typ: t.String()})
	case *SliceV:
		x.curInputs = append(x.curInputs, inputSym{Name: name + "#len", Sym: tv.Len.S, Sort: tv.Len.Sort, Typ: "int"})
		x.curInputs = append(x.curInputs, inputSym{Name: name + "#arr", Sym: tv.Arr.S, Sort: sRef, Typ: "slicearr:" + tv.Elem.String()})
		x.curInputs = append(x.curInputs, inputSym{Name: name + "#off", Sym: tv.Off.S, Sort: tv.Off.Sort, Typ: "int"})
	case *StructV:
		for i, f := range tv.F {
			x.recordInput(name+"."+tv.T.Field(i).Name(), f, tv.T.Field(i).Type())
		}
	}
}

func (x *Exec) markEntryRefs(st *State, v Val) {
	switch tv := v.(type) {
	case Term:
		if tv.Sort == sRef {
			st.notFresh(tv)
		}
	case *SliceV:
		st.notFresh(tv.Arr)
	case *StructV:
		for _, f := range tv.F {
			x.markEntryRefs(st, f)
		}
	}
}

func (x *Exec) declareGhosts(st *State) {
	for _, g := range x.specs.Ghosts {
		name := "ghost0_" + sanitize(g.Name)
		st.declareOnce(name, "(declare-const "+name+" "+g.Sort+")")
		st.ghost[g.Name] = Term{S: name, Sort: g.Sort}
	}
}

func (x *Exec) ghostSort(name string) (string, bool) {
	for _, g := range x.specs.Ghosts {
		if g.Name == name {
			return g.Sort, true
		}
	}
	return "", false
}

func (x *Exec) addObligation(st *State, o *Obligation) {
	o.Func = x.curFunc
	o.Script = st.script
	o.Path = append([]string(nil), st.path...)
	o.Inputs = x.curInputs
	o.Draws = append([]string(nil), st.draws...)
	x.obls = append(x.obls, o)
}

// oblige records a proof obligation and then assumes it for the rest of the path.
func (x *Exec) oblige(st *State, name, kind string, tags []string, goal Term, pos token.Pos, desc string) {
	x.oblCount[name]++
	o := &Obligation{Name: name, Kind: kind, Tags: tags, Goal: goal, Pos: posStr(x.fset, pos), Desc: desc}
	x.addObligation(st, o)
	st.assume(goal)
}

// ---------------------------------------------------------------------------------------------
// Main loop

func (x *Exec) run(init *State) {
	stack := []*State{init}
	for len(stack) > 0 {
		st := stack[len(stack)-1]
		stack = stack[:len(stack)-1]
		x.paths++
		if x.paths > x.maxPaths {
			panic(unsupported{fmt.Sprintf("path budget exceeded (%d paths)", x.maxPaths)})
		}
		for !st.dead {
			more := x.safeStep(st)
			if len(more) > 0 {
				stack = append(stack, more...)
			}
			st.steps++
			if st.steps > x.maxSteps {
				panic(unsupported{"step budget exceeded on one path (missing loop cut?)"})
			}
		}
	}
}

// safeStep runs one step; a construct outside the modelled subset does not abort the whole function: the path
// on which it occurs must be unreachable (obligation with goal false), otherwise the machinery reports an error.
func (x *Exec) safeStep(st *State) (more []*State) {
	defer func() {
		if r := recover(); r != nil {
			u, ok := r.(unsupported)
			if !ok {
				panic(r)
			}
			fr := st.top()
			pos := token.NoPos
			if fr.pc < len(fr.block.Instrs) {
				pos = fr.block.Instrs[fr.pc].Pos()
			}
			name := fmt.Sprintf("%s/unmodelled@%s", x.curFunc, x.siteName(fr, pos))
			x.oblige(st, name, "unmodelled", nil, tFalse, pos, "path reaching an unmodelled construct must be unreachable: "+u.msg)
			st.dead = true
			more = nil
		}
	}()
	return x.step(st)
}

// step executes one instruction of the top frame; may return forked states to explore later.
func (x *Exec) step(st *State) []*State {
	fr := st.top()
	if fr.unwinding || fr.runningDefers {
		return x.stepDefers(st, fr)
	}
	if fr.pc >= len(fr.block.Instrs) {
		panic(fmt.Sprintf("fell off block %d of %s", fr.block.Index, fr.fn.Name()))
	}
	in := fr.block.Instrs[fr.pc]
	if x.debug {
		fmt.Fprintf(os.Stderr, "[%d] %s b%d.%d: %v\n", len(st.frames), fr.fn.Name(), fr.block.Index, fr.pc, in)
	}
	switch i := in.(type) {
	case *ssa.DebugRef:
		fr.pc++
	case *ssa.Alloc:
		x.execAlloc(st, fr, i)
		fr.pc++
	case *ssa.Store:
		x.store(st, fr, x.val(st, fr, i.Addr), x.val(st, fr, i.Val), i.Val.Type(), i)
		fr.pc++
	case *ssa.UnOp:
		fr.regs[i] = x.execUnOp(st, fr, i)
		fr.pc++
	case *ssa.BinOp:
		fr.regs[i] = x.execBinOp(st, fr, i)
		fr.pc++
	case *ssa.Convert:
		fr.regs[i] = x.execConvert(st, x.val(st, fr, i.X), i.X.Type(), i.Type())
		fr.pc++
	case *ssa.MultiConvert:
		v := x.val(st, fr, i.X)
		_ = v
		fr.regs[i] = st.freshVal(i.Type(), "multiconv")
		fr.pc++
	case *ssa.ChangeType:
		fr.regs[i] = x.retag(x.val(st, fr, i.X), i.Type())
		fr.pc++
	case *ssa.ChangeInterface:
		fr.regs[i] = x.val(st, fr, i.X)
		fr.pc++
	case *ssa.MakeInterface:
		fr.regs[i] = x.makeInterface(st, x.val(st, fr, i.X), i.X.Type())
		fr.pc++
	case *ssa.TypeAssert:
		return x.execTypeAssert(st, fr, i)
	case *ssa.Extract:
		tv := x.val(st, fr, i.Tuple).(TupleV)
		fr.regs[i] = tv[i.Index]
		fr.pc++
	case *ssa.Field:
		sv, ok := x.val(st, fr, i.X).(*StructV)
		if !ok {
			panic(unsupported{"Field on non-struct value"})
		}
		fr.regs[i] = sv.F[i.Field]
		fr.pc++
	case *ssa.FieldAddr:
		fr.regs[i] = x.fieldAddr(st, x.val(st, fr, i.X), i.X.Type(), i.Field)
		fr.pc++
	case *ssa.IndexAddr:
		fr.regs[i] = x.indexAddr(st, fr, i)
		fr.pc++
	case *ssa.Index:
		fr.regs[i] = x.execIndex(st, fr, i)
		fr.pc++
	case *ssa.Slice:
		fr.regs[i] = x.execSlice(st, fr, i)
		fr.pc++
	case *ssa.MakeSlice:
		fr.regs[i] = x.execMakeSlice(st, fr, i)
		fr.pc++
	case *ssa.MakeMap:
		fr.regs[i] = x.execMakeMap(st, fr, i)
		fr.pc++
	case *ssa.MapUpdate:
		x.execMapUpdate(st, fr, i)
		fr.pc++
	case *ssa.Lookup:
		fr.regs[i] = x.execLookup(st, fr, i)
		fr.pc++
	case *ssa.Range:
		fr.regs[i] = MapIterV{M: x.val(st, fr, i.X)}
		fr.pc++
	case *ssa.Next:
		// (ok, key, value) all unconstrained: iteration order and content are abstracted
		fr.regs[i] = st.freshVal(i.Type(), "next")
		fr.pc++
	case *ssa.MakeClosure:
		c := &ClosureV{Fn: i.Fn.(*ssa.Function)}
		for _, b := range i.Bindings {
			c.Bind = append(c.Bind, x.val(st, fr, b))
		}
		fr.regs[i] = c
		fr.pc++
	case *ssa.Phi:
		for k, p := range fr.block.Preds {
			if p == fr.prev {
				fr.regs[i] = x.val(st, fr, i.Edges[k])
			}
		}
		fr.pc++
	case *ssa.Jump:
		return x.jump(st, fr, fr.block.Succs[0])
	case *ssa.If:
		c := x.val(st, fr, i.Cond).(Term)
		switch c.S {
		case "true":
			return x.jump(st, fr, fr.block.Succs[0])
		case "false":
			return x.jump(st, fr, fr.block.Succs[1])
		}
		if handled, more := x.branchMerged(st, fr, c, fmt.Sprintf("%s:T", posStr(x.fset, i.Cond.Pos())), fmt.Sprintf("%s:F", posStr(x.fset, i.Cond.Pos()))); handled {
			return more
		}
		other := st.fork()
		st.assume(c)
		st.path = append(st.path, fmt.Sprintf("%s:T", posStr(x.fset, i.Cond.Pos())))
		other.assume(tNot(c))
		other.path = append(other.path, fmt.Sprintf("%s:F", posStr(x.fset, i.Cond.Pos())))
		ofr := other.top()
		more := x.jump(other, ofr, ofr.block.Succs[1])
		more2 := x.jump(st, fr, fr.block.Succs[0])
		out := append(more, more2...)
		if !other.dead {
			out = append(out, other)
		}
		return out
	case *ssa.Call:
		if site, anns := x.siteAnns(st, fr, i.Call.Pos()); len(anns) > 0 {
			env := x.siteEnvCall(st, fr, &i.Call)
			x.pendingWitness = nil
			for _, a := range anns {
				if a.Kind == "assert" && !x.assumedOnly(a.Cl) {
					t := x.evalBool(env, a.Cl.Expr, a.Cl)
					x.oblige(st, fmt.Sprintf("%s/at:%s-assert#%d", x.curFunc, site, a.Cl.Ord), "site-assert", a.Cl.Tags, t, i.Call.Pos(), "before "+site+": "+a.Cl.Src)
				}
				if a.Kind == "witness" {
					// scenario: the callee's result is this term; it must be admissible (satisfy the callee's postconditions)
					if ce, isCall := a.Cl.Expr.(*ast.CallExpr); isCall {
						if id, isId := ce.Fun.(*ast.Ident); isId && id.Name == "tuple" {
							tt, isTuple := i.Type().(*types.Tuple)
							if !isTuple || tt.Len() != len(ce.Args) {
								x.specFail(a.Cl, "tuple witness does not match the results of the call")
							}
							wr := &witnessReq{site: site, cl: a.Cl}
							for k, ae := range ce.Args {
								wr.vals = append(wr.vals, x.evalTerm(env, ae, tt.At(k).Type(), a.Cl))
							}
							x.pendingWitness = wr
							continue
						}
					}
					w := x.evalTerm(env, a.Cl.Expr, i.Type(), a.Cl)
					x.pendingWitness = &witnessReq{val: w, site: site, cl: a.Cl}
				}
			}
		}
		return x.execCall(st, fr, i, &i.Call, false)
	case *ssa.Defer:
		x.execDefer(st, fr, i)
		fr.pc++
	case *ssa.RunDefers:
		fr.runningDefers = true
	case *ssa.Return:
		var res Val
		switch len(i.Results) {
		case 0:
			res = nil
		case 1:
			res = x.val(st, fr, i.Results[0])
		default:
			tv := make(TupleV, len(i.Results))
			for k, r := range i.Results {
				tv[k] = x.val(st, fr, r)
			}
			res = tv
		}
		return x.doReturn(st, fr, res)
	case *ssa.Panic:
		v := x.val(st, fr, i.X)
		pv := st.asTerm(v, nil)
		return x.raise(st, pv, i.Pos(), "explicit panic")
	case *ssa.Go:
		panic(unsupported{"go statement"})
	case *ssa.Select, *ssa.Send, *ssa.MakeChan:
		panic(unsupported{"channel operation"})
	case *ssa.SliceToArrayPointer:
		panic(unsupported{"slice to array pointer"})
	default:
		panic(unsupported{fmt.Sprintf("instruction %T", in)})
	}
	return nil
}

func (x *Exec) retag(v Val, t types.Type) Val {
	if tv, ok := v.(Term); ok {
		tv.Typ = t
		return tv
	}
	if sv, ok := v.(*StructV); ok {
		n := *sv
		n.Named = t
		return &n
	}
	return v
}

// val evaluates an ssa.Value operand.
func (x *Exec) val(st *State, fr *Frame, v ssa.Value) Val {
	switch c := v.(type) {
	case *ssa.Const:
		return x.constVal(st, c)
	case *ssa.Function:
		return c
	case *ssa.Global:
		return GlobalPtr{G: c}
	case *ssa.Builtin:
		return BuiltinV{Name: c.Name()}
	case *ssa.FreeVar:
		for i, fv := range fr.fn.FreeVars {
			if fv == c {
				return fr.bind[i]
			}
		}
		panic("free var not bound")
	}
	if r, ok := fr.regs[v]; ok {
		return r
	}
	panic(fmt.Sprintf("value %s (%T) not computed in %s", v.Name(), v, fr.fn.Name()))
}

func (x *Exec) constVal(st *State, c *ssa.Const) Val {
	t := c.Type()
	if c.Value == nil {
		return st.zeroVal(t)
	}
	return x.constTerm(st, c.Value, t)
}

func (x *Exec) constTerm(st *State, v constant.Value, t types.Type) Term {
	sort, ok := x.sortOf(t)
	if !ok {
		panic(unsupported{"constant of type " + t.String()})
	}
	switch {
	case sort == sInt:
		iv := constant.ToInt(v)
		s := iv.ExactString()
		if strings.HasPrefix(s, "-") {
			s = "(- " + s[1:] + ")"
		}
		return Term{S: s, Sort: sInt, Typ: mathInt}
	case sort == sBool:
		if constant.BoolVal(v) {
			return Term{S: "true", Sort: sBool, Typ: t}
		}
		return Term{S: "false", Sort: sBool, Typ: t}
	case isBV(sort):
		w := bvWidth(sort)
		iv := constant.ToInt(v)
		var u uint64
		if i64, ok := constant.Int64Val(iv); ok {
			u = uint64(i64)
		} else if u64, ok := constant.Uint64Val(iv); ok {
			u = u64
		} else {
			panic(unsupported{"integer constant out of range: " + v.String()})
		}
		return Term{S: bvConst(u, w), Sort: sort, Typ: t}
	case sort == sF64:
		f, _ := constant.Float64Val(constant.ToFloat(v))
		return f64Const(f, t)
	case sort == sF32:
		f, _ := constant.Float32Val(constant.ToFloat(v))
		b := math.Float32bits(f)
		return Term{S: fmt.Sprintf("(fp #b%b #b%08b #b%023b)", b>>31, (b>>23)&0xff, b&0x7fffff), Sort: sF32, Typ: t}
	case sort == sStr:
		return x.strLit(st, constant.StringVal(v), t)
	}
	panic(unsupported{"constant of sort " + sort})
}

func f64Const(f float64, t types.Type) Term {
	b := math.Float64bits(f)
	return Term{S: fmt.Sprintf("(fp #b%b #b%011b #b%052b)", b>>63, (b>>52)&0x7ff, b&(1<<52-1)), Sort: sF64, Typ: t}
}

func (x *Exec) strLit(st *State, s string, t types.Type) Term {
	if s == "" {
		return Term{S: "str_empty", Sort: sStr, Typ: t}
	}
	name, ok := x.strLits[s]
	if !ok {
		name = fmt.Sprintf("strlit_%d", len(x.strLits)+1)
		x.strLits[s] = name
	}
	if !st.declared[name] {
		st.declareOnce(name, "(declare-const "+name+" Str)")
		st.declareOnce(name+"_len", fmt.Sprintf("(assert (= (str_len %s) %s))", name, bvConst(uint64(len(s)), 64)))
		// pairwise distinctness of all literals is added when the query is built
	}
	return Term{S: name, Sort: sStr, Typ: t}
}

// ---------------------------------------------------------------------------------------------
// Alloc / load / store / addresses

func (x *Exec) execAlloc(st *State, fr *Frame, a *ssa.Alloc) {
	et := a.Type().(*types.Pointer).Elem()
	if a.Heap {
		if su, ok := under(et).(*types.Struct); ok && !isTypeParam(et) {
			r := st.freshRef("new_" + structName(et))
			r.Typ = a.Type()
			st.storeStruct(r, su, et, st.zeroVal(et))
			x.freshMutexes(st, r, su, structName(et))
			fr.regs[a] = r
			return
		}
	}
	if at, ok := under(et).(*types.Array); ok {
		r := st.freshRef("arr_" + a.Comment)
		keys, sorts, typs := st.elemKeys(at.Elem())
		for k := range keys {
			arr := st.elemArr(nil, keys[k], sorts[k])
			var z Term
			if typs[k] != nil {
				z = st.zeroVal(typs[k]).(Term)
			} else if sorts[k] == sRef {
				z = Term{S: "ref_nil", Sort: sRef}
			} else {
				z = bv64(0)
			}
			zero := Term{S: "((as const " + sArr(sBV(64), sorts[k]) + ") " + z.S + ")", Sort: sArr(sBV(64), sorts[k])}
			st.x.symCounter++
			name := fmt.Sprintf("E_%s!%d", sanitize(keys[k]), st.x.symCounter)
			st.emit("(define-fun " + name + " () " + arr.Sort + " " + tStore(arr, r, zero).S + ")")
			st.heap[keys[k]] = Term{S: name, Sort: arr.Sort}
		}
		fr.regs[a] = ArrPtr{Ref: r, Elem: at.Elem(), N: at.Len()}
		return
	}
	if a.Heap {
		if _, isSlice := under(et).(*types.Slice); !isSlice {
			if _, ok := x.sortOf(et); ok {
				r := st.freshRef("new_" + sanitize(a.Comment))
				r.Typ = a.Type()
				st.storeAt(boxKey(et), r, et, st.zeroVal(et), nil)
				fr.regs[a] = r
				return
			}
		}
	}
	x.cellCounter++
	c := &Cell{id: x.cellCounter, name: a.Comment, typ: et}
	st.cells[c] = st.zeroVal(et)
	fr.regs[a] = CellPtr{C: c}
}

// freshMutexes: the zero value of a sync mutex is unlocked (lock typestate ghost).
func (x *Exec) freshMutexes(st *State, ref Term, su *types.Struct, sn string) {
	if _, ok := st.ghost["lockmode"]; !ok {
		return
	}
	for i := 0; i < su.NumFields(); i++ {
		f := su.Field(i)
		if n, ok := types.Unalias(f.Type()).(*types.Named); ok && n.Obj().Pkg() != nil && n.Obj().Pkg().Path() == "sync" && (n.Obj().Name() == "RWMutex" || n.Obj().Name() == "Mutex") {
			er := st.embRef(sn, f.Name(), ref)
			st.assume(tSame(tSelect(st.ghost["lockmode"], er), Term{S: "0", Sort: sInt}))
		}
	}
}

func (x *Exec) load(st *State, addr Val, t types.Type) Val {
	switch a := addr.(type) {
	case CellPtr:
		v := st.cells[a.C]
		for _, pe := range a.Path {
			if pe.field >= 0 {
				v = v.(*StructV).F[pe.field]
			} else {
				arr := v.(Term)
				e := tSelect(arr, pe.idx)
				if at, ok := under(arr.Typ).(*types.Array); ok {
					e.Typ = at.Elem()
				}
				v = e
			}
		}
		return v
	case FieldPtr:
		x.guardCheck(st, a, false, nil)
		return st.loadField(nil, a.Ref, a.S, a.SN, a.Idx)
	case ElemPtr:
		return st.loadElem(nil, a.Arr, a.Idx, a.Elem)
	case ElemFieldPtr:
		keys, sorts, typs := st.elemKeys(a.Elem)
		k := elemFieldKeyIndex(under(a.Elem).(*types.Struct), a.Field)
		if _, isSlice := under(under(a.Elem).(*types.Struct).Field(a.Field).Type()).(*types.Slice); isSlice {
			panic(unsupported{"address of a slice-typed field of a slice element"})
		}
		r := tSelect(tSelect(st.elemArr(nil, keys[k], sorts[k]), a.Arr), a.Idx)
		r.Typ = typs[k]
		return r
	case GlobalPtr:
		gt := a.G.Type().(*types.Pointer).Elem()
		if su, ok := under(gt).(*types.Struct); ok {
			return st.loadStruct(nil, st.globalRef(a.G), su, gt)
		}
		return st.loadAt(nil, "glob."+a.G.Name(), Term{S: "ref_nil", Sort: sRef}, gt, nil)
	case Term:
		// pointer value: load whole pointee
		pt, ok := t, true
		_ = ok
		if su, ok := under(pt).(*types.Struct); ok && !isTypeParam(pt) {
			return st.loadStruct(nil, a, su, pt)
		}
		return st.loadAt(nil, boxKey(pt), a, pt, nil)
	}
	panic(unsupported{fmt.Sprintf("load through %T", addr)})
}

func setPath(st *State, cur Val, path []pathElem, v Val) Val {
	if len(path) == 0 {
		return v
	}
	pe := path[0]
	if pe.field >= 0 {
		sv := cur.(*StructV)
		n := &StructV{T: sv.T, Named: sv.Named, F: append([]Val(nil), sv.F...)}
		n.F[pe.field] = setPath(st, sv.F[pe.field], path[1:], v)
		return n
	}
	arr := cur.(Term)
	if len(path) != 1 {
		panic(unsupported{"nested array path"})
	}
	t := tStore(arr, pe.idx, st.asTerm(v, nil))
	t.Typ = arr.Typ
	return st.def("arr", t)
}

func (x *Exec) store(st *State, fr *Frame, addr Val, v Val, t types.Type, at ssa.Instruction) {
	switch a := addr.(type) {
	case CellPtr:
		st.cells[a.C] = setPath(st, st.cells[a.C], a.Path, v)
	case FieldPtr:
		x.guardCheck(st, a, true, v)
		st.storeField(a.Ref, a.S, a.SN, a.Idx, v)
	case ElemPtr:
		x.publishedCheck(st, fr, a.Arr, tTrue, at)
		st.storeElem(a.Arr, a.Idx, a.Elem, v)
	case ElemFieldPtr:
		x.publishedCheck(st, fr, a.Arr, tTrue, at)
		keys, sorts, _ := st.elemKeys(a.Elem)
		k := elemFieldKeyIndex(under(a.Elem).(*types.Struct), a.Field)
		arr := st.elemArr(nil, keys[k], sorts[k])
		inner := tStore(tSelect(arr, a.Arr), a.Idx, st.asTerm(v, nil))
		st.x.symCounter++
		name := fmt.Sprintf("E_%s!%d", sanitize(keys[k]), st.x.symCounter)
		st.emit("(define-fun " + name + " () " + arr.Sort + " " + tStore(arr, a.Arr, inner).S + ")")
		st.heap[keys[k]] = Term{S: name, Sort: arr.Sort}
	case GlobalPtr:
		gt := a.G.Type().(*types.Pointer).Elem()
		if su, ok := under(gt).(*types.Struct); ok {
			st.storeStruct(st.globalRef(a.G), su, gt, v)
			return
		}
		st.storeAt("glob."+a.G.Name(), Term{S: "ref_nil", Sort: sRef}, gt, v, nil)
		if x.curContract != nil && len(st.frames) == 1 {
			for _, cl := range x.curContract.StoreAnns[a.G.Name()] {
				if x.assumedOnly(cl) {
					continue
				}
				env := &specEnv{x: x, st: st, vars: map[string]Val{}, frame: fr, old: st.entry, where: "after store to " + a.G.Name()}
				for pi, pe := range splitConj(cl.Expr) {
					t := x.evalBool(env, pe, cl)
					x.oblige(st, fmt.Sprintf("%s/after-store:%s#%d.%d", x.curFunc, a.G.Name(), cl.Ord, pi), "store-assert", cl.Tags, t, token.NoPos, "right after "+a.G.Name()+" is assigned: "+exprStr(pe))
				}
			}
		}
	case Term:
		if su, ok := under(t).(*types.Struct); ok && !isTypeParam(t) {
			st.storeStruct(a, su, t, v)
			return
		}
		st.storeAt(boxKey(t), a, t, v, nil)
	default:
		panic(unsupported{fmt.Sprintf("store through %T", addr)})
	}
}

// guardCheck: lock discipline (guarded fields need the lock: read mode for loads, write mode for stores; objects
// allocated by the function under verification are not shared yet and are exempt) and per-field transition invariants.
func (x *Exec) guardCheck(st *State, a FieldPtr, write bool, nv Val) {
	key := a.SN + "." + a.S.Field(a.Idx).Name()
	fr := st.top()
	if mf, ok := x.specs.Guarded[key]; ok && x.onlyTagIn(x.specs.GuardTags[key]) {
		if _, has := st.ghost["lockmode"]; has {
			st.declareOnce("is_fresh", "(declare-fun is_fresh (Ref) Int)")
			mu := st.embRef(a.SN, mf, a.Ref)
			mode := tSelect(st.ghost["lockmode"], mu)
			need := "(>= " + mode.S + " 1)"
			kind := "guarded-read"
			if write {
				need = "(= " + mode.S + " 2)"
				kind = "guarded-write"
			}
			goal := Term{S: "(or (> (is_fresh " + a.Ref.S + ") 0) " + need + ")", Sort: sBool}
			pos := token.NoPos
			if fr.pc < len(fr.block.Instrs) {
				pos = fr.block.Instrs[fr.pc].Pos()
			}
			name := fmt.Sprintf("%s/%s:%s@%s", x.curFunc, kind, key, x.siteName(fr, pos))
			x.oblige(st, name, "lock-discipline", x.specs.GuardTags[key], goal, pos, key+" is accessed only while "+a.SN+"."+mf+" is held in the required mode")
		}
	}
	if write && x.curContract != nil && len(x.curContract.Immutable) > 0 && x.onlyTagIs("C15") && len(st.frames) >= 1 {
		_, once := x.specs.OnceGuard[key]
		if !once {
			top := st.frames[0]
			for _, pn := range x.curContract.Immutable {
				for _, p := range top.fn.Params {
					if p.Name() != pn {
						continue
					}
					pv, isT := top.regs[p].(Term)
					if !isT {
						continue
					}
					if pt, ok := under(p.Type()).(*types.Pointer); ok && structName(pt.Elem()) != a.SN {
						continue // a store into an object of another type cannot hit the generator object
					}
					pos := token.NoPos
					if fr.pc < len(fr.block.Instrs) {
						pos = fr.block.Instrs[fr.pc].Pos()
					}
					name := fmt.Sprintf("%s/immutable:%s@%s", x.curFunc, key, x.siteName(fr, pos))
					x.oblige(st, name, "immutability", []string{"C15"}, tNot(tSame(a.Ref, pv)), pos, "no field of the shared generator object "+pn+" is written while drawing (store to "+key+")")
				}
			}
		}
	}
	if of, ok := x.specs.OnceGuard[key]; ok && x.onlyTagIs("C15") {
		in, hasIn := st.ghost["onceIn"]
		done, hasDone := st.ghost["onceDone"]
		if hasIn && hasDone {
			st.declareOnce("is_fresh", "(declare-fun is_fresh (Ref) Int)")
			o := st.embRef(a.SN, of, a.Ref)
			var need Term
			kind := "once-read"
			if write {
				need = tSelect(in, o)
				kind = "once-write"
			} else {
				need = tOr(tSelect(done, o), tSelect(in, o))
			}
			goal := tOr(Term{S: "(> (is_fresh " + a.Ref.S + ") 0)", Sort: sBool}, need)
			pos := token.NoPos
			if fr.pc < len(fr.block.Instrs) {
				pos = fr.block.Instrs[fr.pc].Pos()
			}
			name := fmt.Sprintf("%s/%s:%s@%s", x.curFunc, kind, key, x.siteName(fr, pos))
			x.oblige(st, name, "once-discipline", []string{"C15"}, goal, pos, key+" is written only inside "+a.SN+"."+of+".Do and read only after it")
		}
	}
	if tr, ok := x.specs.Trans[key]; ok && write {
		if x.onlyTag != "" && len(tr.Tags) > 0 {
			found := false
			for _, tg := range tr.Tags {
				if tg == x.onlyTag {
					found = true
				}
			}
			if !found {
				return
			}
		}
		old := st.loadField(nil, a.Ref, a.S, a.SN, a.Idx)
		env := &specEnv{x: x, st: st, vars: map[string]Val{"old": old, "new": nv}, where: "transition " + key}
		if obj := x.pkg.Pkg.Scope().Lookup(a.SN); obj != nil {
			self := a.Ref
			self.Typ = types.NewPointer(obj.Type())
			env.vars["self"] = self // the object whose field is stored to
		}
		cl := &Clause{File: tr.File, Line: tr.Line, Src: tr.Src}
		goal := x.evalBool(env, tr.Expr, cl)
		st.declareOnce("is_fresh", "(declare-fun is_fresh (Ref) Int)")
		goal = tOr(Term{S: "(> (is_fresh " + a.Ref.S + ") 0)", Sort: sBool}, goal)
		pos := token.NoPos
		if fr.pc < len(fr.block.Instrs) {
			pos = fr.block.Instrs[fr.pc].Pos()
		}
		name := fmt.Sprintf("%s/transition:%s@%s", x.curFunc, key, x.siteName(fr, pos))
		x.oblige(st, name, "transition-invariant", tr.Tags, goal, pos, "store to "+key+" respects: "+tr.Src)
	}
}

func (x *Exec) onlyTagIs(tag string) bool { return x.onlyTag == "" || x.onlyTag == tag }

func (x *Exec) onlyTagIn(tags []string) bool {
	if x.onlyTag == "" {
		return true
	}
	for _, t := range tags {
		if t == x.onlyTag {
			return true
		}
	}
	return false
}

// publishedCheck (C15): memory that has been handed to a process-wide cache (ghost published[arr], set by the
// dependency contracts of sync.Map.Store/LoadOrStore) must never be written again.
func (x *Exec) publishedCheck(st *State, fr *Frame, arr Term, cond Term, at ssa.Instruction) {
	pub, ok := st.ghost["published"]
	if !ok || !x.onlyTagIs("C15") || x.curContract == nil || !x.curContract.ChecksPub {
		return
	}
	pos := token.NoPos
	if at != nil {
		pos = at.Pos()
	}
	goal := tImplies(cond, tNot(tSelect(pub, arr)))
	x.oblige(st, fmt.Sprintf("%s/write-after-publish@%s", x.curFunc, x.siteName(fr, pos)), "immutability", []string{"C15"}, goal, pos, "memory already stored in a shared cache is not written")
}

func (x *Exec) fieldAddr(st *State, base Val, bt types.Type, field int) Val {
	pt := under(bt).(*types.Pointer).Elem()
	su := under(pt).(*types.Struct)
	switch b := base.(type) {
	case CellPtr:
		return CellPtr{C: b.C, Path: append(append([]pathElem(nil), b.Path...), pathElem{field: field})}
	case Term:
		return FieldPtr{Ref: b, S: su, SN: structName(pt), Idx: field}
	case FieldPtr:
		r := st.asTerm(b, nil)
		return FieldPtr{Ref: r, S: su, SN: structName(pt), Idx: field}
	case GlobalPtr:
		return FieldPtr{Ref: st.globalRef(b.G), S: su, SN: structName(pt), Idx: field}
	case ElemPtr:
		return ElemFieldPtr{Arr: b.Arr, Idx: b.Idx, Elem: b.Elem, Field: field}
	}
	panic(unsupported{fmt.Sprintf("FieldAddr on %T", base)})
}

func (x *Exec) boundsCheck(st *State, fr *Frame, idx, n Term, pos token.Pos, what string) {
	goal := tAnd(app(sBool, nil, "bvsle", bv64(0), idx), app(sBool, nil, "bvslt", idx, n))
	x.safety(st, fr, "bounds", goal, pos, what)
}

// safety records a no-panic-sweep obligation, named by kind and ordinal within the function.
func (x *Exec) safety(st *State, fr *Frame, kind string, goal Term, pos token.Pos, what string) {
	if goal.S == "true" {
		return
	}
	if x.curContract != nil && x.curContract.NoSafety {
		st.assume(goal)
		return
	}
	name := fmt.Sprintf("%s/%s@%s", x.curFunc, kind, x.siteName(fr, pos))
	x.oblige(st, name, "safety", nil, goal, pos, what)
}

// siteName identifies a source site robustly: function-relative line offset would break on edits above
// inside the function, so use "<enclosing func>+<ordinal of this position among same-kind sites>" lazily:
// we approximate by file:line relative to the function start.
func (x *Exec) siteName(fr *Frame, pos token.Pos) string {
	if !pos.IsValid() {
		return fr.fn.Name()
	}
	p := x.fset.Position(pos)
	start := x.fset.Position(fr.fn.Pos())
	fn := fr.fn
	for fn.Parent() != nil {
		fn = fn.Parent()
		start = x.fset.Position(fn.Pos())
	}
	return fmt.Sprintf("%s+%d", fn.Name(), p.Line-start.Line)
}

func (x *Exec) toInt64(st *State, v Val, t types.Type) Term {
	tv := st.asTerm(v, t)
	w := bvWidth(tv.Sort)
	if w == 64 {
		return tv
	}
	if w == 0 {
		panic(unsupported{"index of sort " + tv.Sort})
	}
	if isSigned(t) {
		return app(sBV(64), nil, fmt.Sprintf("(_ sign_extend %d)", 64-w), tv)
	}
	return app(sBV(64), nil, fmt.Sprintf("(_ zero_extend %d)", 64-w), tv)
}

func (x *Exec) indexAddr(st *State, fr *Frame, i *ssa.IndexAddr) Val {
	base := x.val(st, fr, i.X)
	idx := x.toInt64(st, x.val(st, fr, i.Index), i.Index.Type())
	switch bt := under(i.X.Type()).(type) {
	case *types.Slice:
		s := st.asSlice(base, bt.Elem())
		x.boundsCheck(st, fr, idx, s.Len, i.Pos(), "index in range of slice")
		abs := st.def("ix", app(sBV(64), nil, "bvadd", s.Off, idx))
		return ElemPtr{Arr: s.Arr, Idx: abs, Elem: bt.Elem()}
	case *types.Pointer:
		at := under(bt.Elem()).(*types.Array)
		x.boundsCheck(st, fr, idx, bv64(uint64(at.Len())), i.Pos(), "index in range of array")
		if ap, ok := base.(ArrPtr); ok {
			return ElemPtr{Arr: ap.Ref, Idx: idx, Elem: at.Elem()}
		}
		if cp, ok := base.(CellPtr); ok {
			return CellPtr{C: cp.C, Path: append(append([]pathElem(nil), cp.Path...), pathElem{field: -1, idx: idx})}
		}
		panic(unsupported{"IndexAddr on heap array"})
	}
	panic(unsupported{"IndexAddr on " + i.X.Type().String()})
}

func (x *Exec) execIndex(st *State, fr *Frame, i *ssa.Index) Val {
	base := x.val(st, fr, i.X)
	idx := x.toInt64(st, x.val(st, fr, i.Index), i.Index.Type())
	switch bt := under(i.X.Type()).(type) {
	case *types.Array:
		x.boundsCheck(st, fr, idx, bv64(uint64(bt.Len())), i.Pos(), "index in range of array")
		t := tSelect(base.(Term), idx)
		t.Typ = bt.Elem()
		return t
	case *types.Basic: // string
		n := app(sBV(64), nil, "str_len", base.(Term))
		x.boundsCheck(st, fr, idx, n, i.Pos(), "index in range of string")
		st.declareOnce("str_at", "(declare-fun str_at (Str (_ BitVec 64)) (_ BitVec 8))")
		return app(sBV(8), i.Type(), "str_at", base.(Term), idx)
	}
	panic(unsupported{"Index on " + i.X.Type().String()})
}

func (x *Exec) execSlice(st *State, fr *Frame, i *ssa.Slice) Val {
	base := x.val(st, fr, i.X)
	get := func(v ssa.Value) *Term {
		if v == nil {
			return nil
		}
		t := x.toInt64(st, x.val(st, fr, v), v.Type())
		return &t
	}
	lo, hi, mx := get(i.Low), get(i.High), get(i.Max)
	switch bt := under(i.X.Type()).(type) {
	case *types.Slice:
		s := st.asSlice(base, bt.Elem())
		l := bv64(0)
		if lo != nil {
			l = *lo
		}
		h := s.Len
		if hi != nil {
			h = *hi
		}
		c := s.Cap
		if mx != nil {
			c = *mx
		}
		goal := tAnd(app(sBool, nil, "bvsle", bv64(0), l), app(sBool, nil, "bvsle", l, h), app(sBool, nil, "bvsle", h, c), app(sBool, nil, "bvsle", c, s.Cap))
		x.safety(st, fr, "slice-bounds", goal, i.Pos(), "slice bounds in range")
		return &SliceV{Arr: s.Arr, Off: st.def("off", app(sBV(64), nil, "bvadd", s.Off, l)), Len: st.def("len", app(sBV(64), nil, "bvsub", h, l)), Cap: st.def("cap", app(sBV(64), nil, "bvsub", c, l)), Elem: bt.Elem()}
	case *types.Pointer:
		// slicing an array through its address: tmp[:]
		at := under(bt.Elem()).(*types.Array)
		ap, ok := base.(ArrPtr)
		if !ok {
			panic(unsupported{"slice of an array that is not a local"})
		}
		n := bv64(uint64(at.Len()))
		l := bv64(0)
		if lo != nil {
			l = *lo
		}
		h := n
		if hi != nil {
			h = *hi
		}
		goal := tAnd(app(sBool, nil, "bvsle", bv64(0), l), app(sBool, nil, "bvsle", l, h), app(sBool, nil, "bvsle", h, n))
		x.safety(st, fr, "slice-bounds", goal, i.Pos(), "array slice bounds in range")
		return &SliceV{Arr: ap.Ref, Off: l, Len: st.def("len", app(sBV(64), nil, "bvsub", h, l)), Cap: st.def("cap", app(sBV(64), nil, "bvsub", n, l)), Elem: at.Elem()}
	case *types.Basic:
		// string slicing
		s := base.(Term)
		n := app(sBV(64), nil, "str_len", s)
		l := bv64(0)
		if lo != nil {
			l = *lo
		}
		h := n
		if hi != nil {
			h = *hi
		}
		goal := tAnd(app(sBool, nil, "bvsle", bv64(0), l), app(sBool, nil, "bvsle", l, h), app(sBool, nil, "bvsle", h, n))
		x.safety(st, fr, "slice-bounds", goal, i.Pos(), "string slice bounds in range")
		st.declareOnce("str_sub", "(declare-fun str_sub (Str (_ BitVec 64) (_ BitVec 64)) Str)")
		r := st.def("substr", app(sStr, i.Type(), "str_sub", s, l, h))
		st.assume(tEq(app(sBV(64), nil, "str_len", r), app(sBV(64), nil, "bvsub", h, l)))
		return r
	}
	panic(unsupported{"Slice on " + i.X.Type().String()})
}

func (x *Exec) execMakeSlice(st *State, fr *Frame, i *ssa.MakeSlice) Val {
	et := under(i.Type()).(*types.Slice).Elem()
	n := x.toInt64(st, x.val(st, fr, i.Len), i.Len.Type())
	c := x.toInt64(st, x.val(st, fr, i.Cap), i.Cap.Type())
	goal := tAnd(app(sBool, nil, "bvsle", bv64(0), n), app(sBool, nil, "bvsle", n, c))
	x.safety(st, fr, "makeslice", goal, i.Pos(), "make: 0 <= len <= cap")
	r := st.freshRef("mk")
	// contents are zero
	keys, sorts, typs := st.elemKeys(et)
	for k := range keys {
		a := st.elemArr(nil, keys[k], sorts[k])
		var z Term
		if typs[k] != nil {
			z = st.zeroVal(typs[k]).(Term)
		} else if sorts[k] == sRef {
			z = Term{S: "ref_nil", Sort: sRef}
		} else {
			z = bv64(0)
		}
		zero := Term{S: "((as const " + sArr(sBV(64), sorts[k]) + ") " + z.S + ")", Sort: sArr(sBV(64), sorts[k])}
		st.x.symCounter++
		name := fmt.Sprintf("E_%s!%d", sanitize(keys[k]), st.x.symCounter)
		st.emit("(define-fun " + name + " () " + a.Sort + " " + tStore(a, r, zero).S + ")")
		st.heap[keys[k]] = Term{S: name, Sort: a.Sort}
	}
	return &SliceV{Arr: r, Off: bv64(0), Len: n, Cap: c, Elem: et}
}

// ---------------------------------------------------------------------------------------------
// Maps: a map is a Ref; its abstract content lives in heap keys map:<K>:<V>#has / #val / #len

func (x *Exec) mapKeys(st *State, mt *types.Map) (has, val, ln string, ks, vs string) {
	ks, ok := x.sortOf(mt.Key())
	if !ok {
		panic(unsupported{"map key type " + mt.Key().String()})
	}
	vs, ok = x.sortOf(mt.Elem())
	if !ok {
		if st, isStruct := under(mt.Elem()).(*types.Struct); isStruct && st.NumFields() == 0 {
			vs = sBool
		} else {
			panic(unsupported{"map value type " + mt.Elem().String()})
		}
	}
	base := "map:" + sanitize(ks) + ":" + sanitize(vs)
	return base + "#has", base + "#val", base + "#len", ks, vs
}

func (x *Exec) execMakeMap(st *State, fr *Frame, i *ssa.MakeMap) Val {
	mt := under(i.Type()).(*types.Map)
	if _, isStruct := mapStructFields(mt); isStruct {
		ks, _ := x.sortOf(mt.Key())
		base := "map:" + sanitize(ks) + ":" + structName(mt.Elem())
		r := st.freshRef("map")
		r.Typ = i.Type()
		empty := Term{S: "((as const " + sArr(ks, sBool) + ") false)", Sort: sArr(ks, sBool)}
		st.heapWrite(base+"#has", sArr(ks, sBool), r, empty)
		st.heapWrite(base+"#len", sBV(64), r, bv64(0))
		return r
	}
	has, _, ln, ks, _ := x.mapKeys(st, mt)
	r := st.freshRef("map")
	r.Typ = i.Type()
	empty := Term{S: "((as const " + sArr(ks, sBool) + ") false)", Sort: sArr(ks, sBool)}
	st.heapWrite(has, sArr(ks, sBool), r, empty)
	st.heapWrite(ln, sBV(64), r, bv64(0))
	return r
}

// mapStructFields: maps whose values are (non-empty) structs keep one abstract value array per field.
func mapStructFields(mt *types.Map) (*types.Struct, bool) {
	su, ok := under(mt.Elem()).(*types.Struct)
	return su, ok && su.NumFields() > 0
}

func (x *Exec) mapFieldKey(st *State, mt *types.Map, su *types.Struct, f int) (key, ks, vs string) {
	ks, _ = x.sortOf(mt.Key())
	vs, ok := x.sortOf(su.Field(f).Type())
	if !ok {
		panic(unsupported{"map value field type " + su.Field(f).Type().String()})
	}
	return "map:" + sanitize(ks) + ":" + structName(mt.Elem()) + "." + su.Field(f).Name() + "#val", ks, vs
}

// mapLookupStruct reads m[k] of a struct-valued map from snapshot h.
func (x *Exec) mapLookupStruct(st *State, h *heapSnap, mt *types.Map, m, k Term) (*StructV, Term) {
	su, _ := mapStructFields(mt)
	ks, _ := x.sortOf(mt.Key())
	base := "map:" + sanitize(ks) + ":" + structName(mt.Elem())
	present := tSelect(st.heapRead(h, base+"#has", sArr(ks, sBool), m, nil), k)
	sv := &StructV{T: su, Named: mt.Elem(), F: make([]Val, su.NumFields())}
	for f := 0; f < su.NumFields(); f++ {
		key, _, vs := x.mapFieldKey(st, mt, su, f)
		got := tSelect(st.heapRead(h, key, sArr(ks, vs), m, nil), k)
		z := st.zeroVal(su.Field(f).Type()).(Term)
		r := tIte(present, got, z)
		r.Typ = su.Field(f).Type()
		sv.F[f] = r
	}
	return sv, present
}

func (x *Exec) execMapUpdate(st *State, fr *Frame, i *ssa.MapUpdate) {
	mt := under(i.Map.Type()).(*types.Map)
	if su, isStruct := mapStructFields(mt); isStruct {
		ks, _ := x.sortOf(mt.Key())
		base := "map:" + sanitize(ks) + ":" + structName(mt.Elem())
		m := st.asTerm(x.val(st, fr, i.Map), nil)
		k := st.asTerm(x.val(st, fr, i.Key), mt.Key())
		hasArr := st.heapRead(nil, base+"#has", sArr(ks, sBool), m, nil)
		present := tSelect(hasArr, k)
		oldLen := st.heapRead(nil, base+"#len", sBV(64), m, nil)
		st.heapWrite(base+"#len", sBV(64), m, st.def("maplen", tIte(present, oldLen, app(sBV(64), nil, "bvadd", oldLen, bv64(1)))))
		st.heapWrite(base+"#has", sArr(ks, sBool), m, st.def("maphas", tStore(hasArr, k, tTrue)))
		sv := x.val(st, fr, i.Value).(*StructV)
		for f := 0; f < su.NumFields(); f++ {
			key, _, vs := x.mapFieldKey(st, mt, su, f)
			arr := st.heapRead(nil, key, sArr(ks, vs), m, nil)
			st.heapWrite(key, sArr(ks, vs), m, st.def("mapval", tStore(arr, k, st.asTerm(sv.F[f], nil))))
		}
		return
	}
	has, val, ln, ks, vs := x.mapKeys(st, mt)
	m := st.asTerm(x.val(st, fr, i.Map), nil)
	k := st.asTerm(x.val(st, fr, i.Key), mt.Key())
	hasArr := st.heapRead(nil, has, sArr(ks, sBool), m, nil)
	present := tSelect(hasArr, k)
	oldLen := st.heapRead(nil, ln, sBV(64), m, nil)
	st.heapWrite(ln, sBV(64), m, st.def("maplen", tIte(present, oldLen, app(sBV(64), nil, "bvadd", oldLen, bv64(1)))))
	st.heapWrite(has, sArr(ks, sBool), m, st.def("maphas", tStore(hasArr, k, tTrue)))
	var v Term
	if sv, ok := x.val(st, fr, i.Value).(*StructV); ok && len(sv.F) == 0 {
		v = tTrue
	} else {
		v = st.asTerm(x.val(st, fr, i.Value), mt.Elem())
	}
	valArr := st.heapRead(nil, val, sArr(ks, vs), m, nil)
	st.heapWrite(val, sArr(ks, vs), m, st.def("mapval", tStore(valArr, k, v)))
}

func (x *Exec) execLookup(st *State, fr *Frame, i *ssa.Lookup) Val {
	mt, ok := under(i.X.Type()).(*types.Map)
	if !ok {
		panic(unsupported{"string lookup"})
	}
	if _, isStruct := mapStructFields(mt); isStruct {
		m := st.asTerm(x.val(st, fr, i.X), nil)
		k := st.asTerm(x.val(st, fr, i.Index), mt.Key())
		sv, present := x.mapLookupStruct(st, nil, mt, m, k)
		if i.CommaOk {
			return TupleV{sv, st.def("present", present)}
		}
		return sv
	}
	has, val, _, ks, vs := x.mapKeys(st, mt)
	m := st.asTerm(x.val(st, fr, i.X), nil)
	k := st.asTerm(x.val(st, fr, i.Index), mt.Key())
	present := st.def("present", tSelect(st.heapRead(nil, has, sArr(ks, sBool), m, nil), k))
	var v Val
	if su, isStruct := under(mt.Elem()).(*types.Struct); isStruct && su.NumFields() == 0 {
		v = &StructV{T: su, Named: mt.Elem()}
	} else {
		got := tSelect(st.heapRead(nil, val, sArr(ks, vs), m, nil), k)
		z := st.zeroVal(mt.Elem()).(Term)
		r := tIte(present, got, z)
		r.Typ = mt.Elem()
		v = st.def("lookup", r)
	}
	if i.CommaOk {
		return TupleV{v, present}
	}
	return v
}

// ---------------------------------------------------------------------------------------------
// Interfaces

func isSliceType(t types.Type) bool {
	_, ok := under(t).(*types.Slice)
	return ok
}

func (x *Exec) typeTag(t types.Type) int {
	key := types.TypeString(t, nil)
	if id, ok := x.tagIDs[key]; ok {
		return id
	}
	id := len(x.tagIDs) + 1
	x.tagIDs[key] = id
	return id
}

func (x *Exec) makeInterface(st *State, v Val, t types.Type) Val {
	if _, ok := under(t).(*types.Interface); ok && !isTypeParam(t) {
		return v
	}
	tag := fmt.Sprint(x.typeTag(t))
	switch tv := v.(type) {
	case Term:
		switch {
		case tv.Sort == sStr:
			return st.def("iface", Term{S: "(any_str " + tag + " " + tv.S + ")", Sort: sAny})
		case tv.Sort == sRef:
			return st.def("iface", Term{S: "(any_ref " + tag + " " + tv.S + ")", Sort: sAny})
		case isBV(tv.Sort):
			w := bvWidth(tv.Sort)
			e := tv.S
			if w < 64 {
				e = fmt.Sprintf("((_ zero_extend %d) %s)", 64-w, tv.S)
			}
			return st.def("iface", Term{S: "(any_bv " + tag + " " + e + ")", Sort: sAny})
		case tv.Sort == sBool:
			return st.def("iface", Term{S: "(any_bv " + tag + " (ite " + tv.S + " #x0000000000000001 #x0000000000000000))", Sort: sAny})
		}
	case FieldPtr, GlobalPtr:
		r := st.asTerm(v, nil)
		return st.def("iface", Term{S: "(any_ref " + tag + " " + r.S + ")", Sort: sAny})
	case *SliceV:
		// a slice boxed in an interface: identified by its backing array (length/offset are not tracked)
		return st.def("iface", Term{S: "(any_ref " + tag + " " + tv.Arr.S + ")", Sort: sAny})
	}
	// anything else: an opaque interface value, not nil
	o := st.fresh("iface_other", sInt, nil)
	return Term{S: "(any_other " + o.S + ")", Sort: sAny}
}

func (x *Exec) execTypeAssert(st *State, fr *Frame, i *ssa.TypeAssert) []*State {
	v := st.asTerm(x.val(st, fr, i.X), nil)
	at := i.AssertedType
	if _, isIface := under(at).(*types.Interface); isIface && !isTypeParam(at) {
		// interface-to-interface assertion: outcome unknown
		if i.CommaOk {
			ok := st.fresh("ifaceok", sBool, nil)
			fr.regs[i] = TupleV{v, ok}
		} else {
			fr.regs[i] = v
		}
		fr.pc++
		return nil
	}
	tag := fmt.Sprint(x.typeTag(at))
	sort, okSort := x.sortOf(at)
	var isT, payload Term
	switch {
	case okSort && sort == sStr:
		isT = Term{S: "(and ((_ is any_str) " + v.S + ") (= (any_str_tag " + v.S + ") " + tag + "))", Sort: sBool}
		payload = Term{S: "(any_str_v " + v.S + ")", Sort: sStr, Typ: at}
	case okSort && sort == sRef:
		isT = Term{S: "(and ((_ is any_ref) " + v.S + ") (= (any_ref_tag " + v.S + ") " + tag + "))", Sort: sBool}
		payload = Term{S: "(any_ref_v " + v.S + ")", Sort: sRef, Typ: at}
	case okSort && isBV(sort):
		isT = Term{S: "(and ((_ is any_bv) " + v.S + ") (= (any_bv_tag " + v.S + ") " + tag + "))", Sort: sBool}
		w := bvWidth(sort)
		p := "(any_bv_v " + v.S + ")"
		if w < 64 {
			p = fmt.Sprintf("((_ extract %d 0) %s)", w-1, p)
		}
		payload = Term{S: p, Sort: sort, Typ: at}
	case !okSort && isSliceType(at):
		isT = Term{S: "(and ((_ is any_ref) " + v.S + ") (= (any_ref_tag " + v.S + ") " + tag + "))", Sort: sBool}
		isT = st.def("isT", isT)
		sl := st.freshVal(at, "asserted").(*SliceV)
		st.assume(tImplies(isT, tSame(sl.Arr, Term{S: "(any_ref_v " + v.S + ")", Sort: sRef})))
		if i.CommaOk {
			fr.regs[i] = TupleV{sl, isT}
		} else {
			x.safety(st, fr, "type-assert", isT, i.Pos(), "type assertion succeeds")
			fr.regs[i] = sl
		}
		fr.pc++
		return nil
	default:
		// unmodelled dynamic type: unknown outcome
		isT = st.fresh("assert_ok", sBool, nil)
		if i.CommaOk {
			fr.regs[i] = TupleV{st.freshVal(at, "assert_v"), isT}
			fr.pc++
			return nil
		}
		panic(unsupported{"type assertion to " + at.String()})
	}
	isT = st.def("isT", isT)
	if i.CommaOk {
		z := st.zeroVal(at).(Term)
		pv := tIte(isT, payload, z)
		pv.Typ = at
		fr.regs[i] = TupleV{st.def("asserted", pv), isT}
		fr.pc++
		return nil
	}
	x.safety(st, fr, "type-assert", isT, i.Pos(), "type assertion succeeds")
	fr.regs[i] = payload
	fr.pc++
	return nil
}

// ---------------------------------------------------------------------------------------------
// Control flow: jumps with loop cutting

func (x *Exec) jump(st *State, fr *Frame, to *ssa.BasicBlock) []*State {
	li := x.loops(fr.fn)
	if _, isHead := li.blocks[to]; isHead {
		if cut, seen := fr.cut[to]; seen {
			// back edge: invariant preserved, variant decreased; path ends
			x.checkLoopInv(st, fr, to, "preserve", cut)
			st.dead = true
			return nil
		}
		x.checkLoopInv(st, fr, to, "entry", nil)
		x.havocLoop(st, fr, to)
		cut := x.assumeLoopInv(st, fr, to)
		fr.cut[to] = cut
		if len(st.frames) == 1 {
			k := li.ord[to]
			x.addObligation(st, &Obligation{Name: fmt.Sprintf("%s/cover-loop%d", x.curFunc, k), Kind: "cover", Goal: tFalse, Desc: "loop invariants are satisfiable at the loop head (must be sat)"})
		}
	}
	fr.prev = fr.block
	fr.block = to
	fr.pc = 0
	return nil
}

func (x *Exec) loopContract(fr *Frame) *Contract {
	if len(fr.fn.Blocks) == 0 {
		return nil
	}
	if fr.depth == 0 && x.curContract != nil && fr.fn == x.curFn {
		return x.curContract // also for scenario contracts of the function under verification
	}
	key := funcKey(fr.fn, x.pkg.Pkg)
	return x.specs.Contracts[key]
}

func (x *Exec) checkLoopInv(st *State, fr *Frame, head *ssa.BasicBlock, phase string, cut *loopCut) {
	c := x.loopContract(fr)
	if c == nil {
		return
	}
	k := x.loops(fr.fn).ord[head]
	env := x.loopEnv(st, fr, head)
	for _, inv := range c.LoopInv[k] {
		if x.assumedOnly(inv) || (clauseHasTag(inv, "slow") && x.tier != "thorough" && x.tier != "") {
			continue // [slow]: proved in the thorough tier, assumed (and listed) in the quick tier
		}
		t := x.evalBool(env, inv.Expr, inv)
		name := fmt.Sprintf("%s/loop%d-inv#%d-%s", x.loopOwner(st, fr), k, inv.Ord, phase)
		x.oblige(st, name, "invariant", inv.Tags, t, blockPos(head), "loop invariant ("+phase+"): "+inv.Src)
	}
	if dec := c.LoopDec[k]; dec != nil && phase == "preserve" && cut != nil && cut.variant != nil {
		v := x.evalTerm(env, dec.Expr, nil, dec)
		v0 := *cut.variant
		var goal Term
		if isSigned(v.Typ) {
			goal = tAnd(app(sBool, nil, "bvslt", v, v0), app(sBool, nil, "bvsle", Term{S: bvConst(0, bvWidth(v.Sort)), Sort: v.Sort}, v0))
		} else {
			goal = app(sBool, nil, "bvult", v, v0)
		}
		name := fmt.Sprintf("%s/loop%d-decreases", x.loopOwner(st, fr), k)
		x.oblige(st, name, "variant", dec.Tags, goal, blockPos(head), "loop variant decreases and is bounded below: "+dec.Src)
	}
}

func (x *Exec) assumeLoopInv(st *State, fr *Frame, head *ssa.BasicBlock) *loopCut {
	cut := &loopCut{}
	c := x.loopContract(fr)
	if c == nil {
		return cut
	}
	k := x.loops(fr.fn).ord[head]
	env := x.loopEnv(st, fr, head)
	for _, inv := range c.LoopInv[k] {
		st.assume(x.evalBool(env, inv.Expr, inv))
	}
	if dec := c.LoopDec[k]; dec != nil {
		v := st.def("variant0", x.evalTerm(env, dec.Expr, nil, dec))
		cut.variant = &v
	}
	return cut
}

// havocLoop forgets everything the loop may modify. Locations whose base is a loop-invariant local
// (e.g. fields of the *repeat held in a variable assigned before the loop) are forgotten at that reference
// only; everything else falls back to forgetting the whole field array.
// sortedBlocks lists a block set in block-index order (deterministic query text).
func sortedBlocks(set map[*ssa.BasicBlock]bool) []*ssa.BasicBlock {
	var out []*ssa.BasicBlock
	for b := range set {
		out = append(out, b)
	}
	sort.Slice(out, func(i, j int) bool { return out[i].Index < out[j].Index })
	return out
}

func sortedAllocs(set map[*ssa.Alloc]bool) []*ssa.Alloc {
	var out []*ssa.Alloc
	for a := range set {
		out = append(out, a)
	}
	sort.Slice(out, func(i, j int) bool {
		if out[i].Pos() != out[j].Pos() {
			return out[i].Pos() < out[j].Pos()
		}
		return out[i].Name() < out[j].Name()
	})
	return out
}

func (x *Exec) havocLoop(st *State, fr *Frame, head *ssa.BasicBlock) {
	bodySet := x.loops(fr.fn).blocks[head]
	body := sortedBlocks(bodySet)
	x.curLoopHead = head
	// pass 1: locals assigned in the loop
	allocs := newModset()
	heapStored := map[*ssa.Alloc]bool{}
	x.loopHeapStored = heapStored
	for _, b := range body {
		for _, in := range b.Instrs {
			if s, ok := in.(*ssa.Store); ok {
				if al, ok := rootAlloc(s.Addr); ok {
					if !al.Heap {
						allocs.allocs[al] = true
					} else {
						heapStored[al] = true
					}
				}
			}
		}
	}
	ms := newModset()
	var precise []func()
	for _, b := range body {
		for _, in := range b.Instrs {
			x.instrModsLoop(st, fr, in, ms, allocs, &precise)
			// ghosts assigned by call-site annotations inside the loop
			if call, ok := in.(*ssa.Call); ok {
				if _, anns := x.siteAnns(st, fr, call.Call.Pos()); len(anns) > 0 {
					for _, a := range anns {
						if a.Kind == "set" || a.Kind == "onpanic" {
							ms.ghosts[a.Ghost] = true
						}
					}
				}
			}
		}
	}
	for _, a := range sortedAllocs(allocs.allocs) {
		ms.allocs[a] = true
	}
	c := x.loopContract(fr)
	if c != nil {
		k := x.loops(fr.fn).ord[head]
		if locs, ok := c.LoopMod[k]; ok {
			// explicit override of the heap part
			ms.all = false
			ms.keys = map[string]bool{}
			ms.ghosts = map[string]bool{}
			ms.elems, ms.maps = false, false
			precise = nil
			for _, l := range locs {
				if l == "*" {
					ms.all = true
				} else if _, isGhost := x.ghostSort(l); isGhost {
					ms.ghosts[l] = true
				} else if l == "elems" {
					ms.elems = true
				} else if l == "maps" {
					ms.maps = true
				} else {
					ms.keys[l] = true
				}
			}
		}
	}
	// locals
	for _, a := range sortedAllocs(ms.allocs) {
		if p, ok := fr.regs[a]; ok {
			if cp, ok := p.(CellPtr); ok {
				nv := st.freshVal(cp.C.typ, "loop_"+cp.C.name)
				st.boundRefs(nv) // whatever the variable refers to at the loop head was allocated before this point
				st.cells[cp.C] = nv
			}
		}
	}
	x.havocModset(st, ms)
	if !ms.all && !ms.heapAll {
		for _, f := range precise {
			f()
		}
	}
}

// staticVal evaluates an operand at the loop head when its value cannot change inside the loop.
func (x *Exec) staticVal(st *State, fr *Frame, v ssa.Value, allocs *modset) (res Val, ok bool) {
	defer func() {
		if r := recover(); r != nil {
			res, ok = nil, false
		}
	}()
	switch n := v.(type) {
	case *ssa.Const, *ssa.Global, *ssa.Function:
		return x.val(st, fr, v), true
	case *ssa.Parameter:
		r, has := fr.regs[n]
		return r, has
	case *ssa.Alloc:
		r, has := fr.regs[n]
		return r, has
	case *ssa.UnOp:
		if n.Op != token.MUL {
			return nil, false
		}
		if al, isAlloc := n.X.(*ssa.Alloc); isAlloc && !allocs.allocs[al] && !x.loopHeapStored[al] {
			p, has := fr.regs[al]
			if !has {
				return nil, false
			}
			return x.load(st, p, n.Type()), true
		}
		return nil, false
	case *ssa.FieldAddr:
		b, good := x.staticVal(st, fr, n.X, allocs)
		if !good {
			return nil, false
		}
		return x.fieldAddr(st, b, n.X.Type(), n.Field), true
	case *ssa.FreeVar:
		return x.val(st, fr, v), true
	}
	return nil, false
}

func (x *Exec) instrModsLoop(st *State, fr *Frame, in ssa.Instruction, ms *modset, allocs *modset, precise *[]func()) {
	switch i := in.(type) {
	case *ssa.Store:
		if al, ok := rootAlloc(i.Addr); ok && !al.Heap {
			return
		}
		if fa, ok := i.Addr.(*ssa.FieldAddr); ok {
			if a, good := x.staticVal(st, fr, fa, allocs); good {
				if fp, isFP := a.(FieldPtr); isFP {
					*precise = append(*precise, func() { st.havocField(fp.Ref, fp.S, fp.SN, fp.Idx) })
					return
				}
			}
		}
		x.instrMods(fr.fn, in, ms, 0)
	case *ssa.MapUpdate:
		if m, good := x.staticVal(st, fr, i.Map, allocs); good {
			if mt, isT := m.(Term); isT {
				mty := under(i.Map.Type()).(*types.Map)
				*precise = append(*precise, func() { x.havocMapAt(st, mty, mt) })
				return
			}
		}
		ms.maps = true
	case *ssa.Call:
		cc := &i.Call
		if b, isBuiltin := cc.Value.(*ssa.Builtin); isBuiltin && (b.Name() == "copy" || b.Name() == "append") {
			// destination allocated inside the loop body: the object does not exist at the loop head
			if sl, ok := cc.Args[0].(*ssa.Slice); ok && b.Name() == "copy" {
				if al, ok := sl.X.(*ssa.Alloc); ok && x.loops(fr.fn).blocks[x.curLoopHead][al.Block()] {
					return
				}
			}
			// otherwise only the element arrays of the destination's element type are affected
			if st2, ok := under(cc.Args[0].Type()).(*types.Slice); ok {
				func() {
					defer func() {
						if r := recover(); r != nil {
							ms.elems = true
						}
					}()
					keys, _, _ := st.elemKeys(st2.Elem())
					for _, k := range keys {
						ms.keys[k] = true
					}
				}()
				return
			}
		}
		var c *Contract
		var key string
		var fn *ssa.Function
		var args []ssa.Value
		if cc.IsInvoke() {
			key = ifaceKey(cc, x.pkg.Pkg)
			c = x.specs.Contracts[key]
			args = append([]ssa.Value{cc.Value}, cc.Args...)
		} else if f, ok := cc.Value.(*ssa.Function); ok {
			fn = f
			if o := f.Origin(); o != nil {
				fn = o
			}
			key = funcKey(fn, x.pkg.Pkg)
			c = x.specs.Contracts[key]
			args = cc.Args
		} else if _, isBuiltin := cc.Value.(*ssa.Builtin); !isBuiltin {
			if _, isClosure := cc.Value.(*ssa.MakeClosure); !isClosure {
				c = x.callbackContract(cc.Value.Type())
				args = append([]ssa.Value{cc.Value}, cc.Args...)
			}
		}
		if c == nil || strings.HasSuffix(key, "$bound") {
			x.instrMods(fr.fn, in, ms, 0)
			return
		}
		names := x.paramNames(c, fn, cc.Signature(), len(args))
		env := &specEnv{x: x, st: st, vars: map[string]Val{}, where: "loop modifies of " + key}
		for k, n := range names {
			if k < len(args) {
				if v, good := x.staticVal(st, fr, args[k], allocs); good {
					env.vars[n] = x.normArg(st, v)
				}
			}
		}
		for _, un := range c.Uses {
			// caller variable visible to a callback contract: usable when it is not assigned in the loop
			for v := range fr.regs {
				if a, ok := v.(*ssa.Alloc); ok && a.Comment == un && !allocs.allocs[a] && !x.loopHeapStored[a] {
					env.vars[un] = x.load(st, fr.regs[a], a.Type().(*types.Pointer).Elem())
				}
			}
		}
		for _, loc := range c.Modifies {
			loc := loc
			if loc == "*" {
				ms.all = true
				continue
			}
			if loc == "heap" {
				ms.heapAll = true
				continue
			}
			if _, isGhost := x.ghostSort(loc); isGhost {
				ms.ghosts[loc] = true
				continue
			}
			var lv Val
			good := func() (ok bool) {
				defer func() {
					if r := recover(); r != nil {
						ok = false
					}
				}()
				lv = x.evalLoc(env, loc, c)
				return true
			}()
			if good {
				switch l := lv.(type) {
				case FieldPtr:
					*precise = append(*precise, func() { st.havocField(l.Ref, l.S, l.SN, l.Idx) })
					continue
				case wholeStructLoc:
					*precise = append(*precise, func() {
						for k := 0; k < l.S.NumFields(); k++ {
							st.havocField(l.Ref, l.S, l.SN, k)
						}
					})
					continue
				case elemsLoc:
					*precise = append(*precise, func() { st.havocElems(l.arr, l.elem) })
					continue
				case streamLoc:
					envc, cc2 := env, c
					*precise = append(*precise, func() { x.havocLoc(st, envc, loc, cc2) })
					continue
				}
			}
			// fallback: conservative
			tmp := &Contract{HasMod: true, Modifies: []string{loc}}
			x.contractMods(tmp, ms)
		}
	default:
		x.instrMods(fr.fn, in, ms, 0)
	}
}

func (x *Exec) havocMapAt(st *State, mt *types.Map, m Term) {
	has, val, ln, ks, vs := x.mapKeys(st, mt)
	st.heapWrite(has, sArr(ks, sBool), m, st.fresh("hv_maphas", sArr(ks, sBool), nil))
	st.heapWrite(val, sArr(ks, vs), m, st.fresh("hv_mapval", sArr(ks, vs), nil))
	l := st.fresh("hv_maplen", sBV(64), nil)
	st.assume(app(sBool, nil, "bvsle", bv64(0), l))
	st.heapWrite(ln, sBV(64), m, l)
}

type witnessReq struct {
	val  Term
	vals []Term // tuple witness: tuple(e0, e1, ...)
	site string
	cl   *Clause
}

type modset struct {
	allocs  map[*ssa.Alloc]bool
	keys    map[string]bool // heap keys (prefix match on "S.f")
	ghosts  map[string]bool
	elems   bool
	maps    bool
	all     bool
	heapAll bool
}

func newModset() *modset {
	return &modset{allocs: map[*ssa.Alloc]bool{}, keys: map[string]bool{}, ghosts: map[string]bool{}}
}

func (x *Exec) havocModset(st *State, ms *modset) {
	if ms.all {
		st.havocAll()
		for _, g := range x.specs.Ghosts {
			st.ghost[g.Name] = st.fresh("ghost_"+g.Name, g.Sort, nil)
		}
		return
	}
	for _, g := range sortedKeys(ms.ghosts) {
		if s, ok := x.ghostSort(g); ok {
			st.ghost[g] = st.fresh("ghost_"+g, s, nil)
		}
	}
	if ms.heapAll {
		x.havocHeapKeepBoxes(st, x.loopHeapStored)
		return
	}
	// heap keys: drop every key that matches one of the modified fields (whole array forgotten)
	for _, key := range sortedKeys(ms.keys) {
		x.havocKeyPrefix(st, key)
	}
	if ms.elems {
		x.havocKeyPrefix(st, "elem:")
	}
	if ms.maps {
		x.havocKeyPrefix(st, "map:")
	}
}

func (x *Exec) havocKeyPrefix(st *State, prefix string) {
	ep := x.nextEpoch()
	for k := range st.heap {
		if markMatches(prefix, k) {
			delete(st.heap, k)
		}
	}
	st.marks = append(append([]havocMark(nil), st.marks...), havocMark{prefix: prefix, epoch: ep})
}

type havocMark struct {
	prefix string
	epoch  int
}

// markMatches reports whether heap key k is covered by a modified-location mark.
func markMatches(mark, k string) bool {
	if strings.HasSuffix(mark, ":") {
		return strings.HasPrefix(k, mark)
	}
	if strings.HasPrefix(mark, "?") {
		// unresolved path a.b.f: match every key whose field name is f (conservative)
		f := mark[strings.LastIndex(mark, ".")+1:]
		base := k
		if i := strings.Index(base, "#"); i >= 0 {
			base = base[:i]
		}
		if i := strings.LastIndex(base, "."); i >= 0 {
			return base[i+1:] == f
		}
		return false
	}
	return k == mark || strings.HasPrefix(k, mark+"#")
}

func epochFor(key string, base int, marks []havocMark) int {
	ep := base
	for _, m := range marks {
		if m.epoch > ep && markMatches(m.prefix, key) {
			ep = m.epoch
		}
	}
	return ep
}

// instrMods collects what an instruction may modify (syntactically, conservatively).
func (x *Exec) instrMods(fn *ssa.Function, in ssa.Instruction, ms *modset, depth int) {
	switch i := in.(type) {
	case *ssa.Store:
		x.addrMods(i.Addr, ms)
	case *ssa.MapUpdate:
		ms.maps = true
	case *ssa.Call:
		x.callMods(fn, &i.Call, ms, depth)
	case *ssa.Defer:
		x.callMods(fn, &i.Call, ms, depth)
	case *ssa.Go:
		ms.all = true
	}
}

func (x *Exec) addrMods(addr ssa.Value, ms *modset) {
	switch a := addr.(type) {
	case *ssa.Alloc:
		ms.allocs[a] = true
	case *ssa.FieldAddr:
		// root
		root := ssa.Value(a)
		for {
			switch r := root.(type) {
			case *ssa.FieldAddr:
				root = r.X
				continue
			case *ssa.IndexAddr:
				root = r.X
				continue
			}
			break
		}
		if al, ok := root.(*ssa.Alloc); ok && !al.Heap {
			ms.allocs[al] = true
			return
		}
		pt := under(a.X.Type()).(*types.Pointer).Elem()
		su := under(pt).(*types.Struct)
		x.addFieldKeys(ms, structName(pt), su, a.Field)
	case *ssa.IndexAddr:
		if _, ok := under(a.X.Type()).(*types.Slice); ok {
			ms.elems = true
			return
		}
		x.addrMods(a.X, ms)
	case *ssa.Global:
		gt := a.Type().(*types.Pointer).Elem()
		if su, ok := under(gt).(*types.Struct); ok {
			for k := 0; k < su.NumFields(); k++ {
				x.addFieldKeys(ms, structName(gt), su, k)
			}
		} else {
			ms.keys["glob."+a.Name()] = true
		}
	default:
		// store through an arbitrary pointer value
		if pt, ok := under(addr.Type()).(*types.Pointer); ok {
			if su, ok := under(pt.Elem()).(*types.Struct); ok {
				for k := 0; k < su.NumFields(); k++ {
					x.addFieldKeys(ms, structName(pt.Elem()), su, k)
				}
				return
			}
			ms.keys[boxKey(pt.Elem())] = true
			return
		}
		ms.all = true
	}
}

func (x *Exec) addFieldKeys(ms *modset, sn string, su *types.Struct, field int) {
	f := su.Field(field)
	if nested, ok := under(f.Type()).(*types.Struct); ok && !isTypeParam(f.Type()) {
		for k := 0; k < nested.NumFields(); k++ {
			x.addFieldKeys(ms, structName(f.Type()), nested, k)
		}
		return
	}
	ms.keys[sn+"."+f.Name()] = true
}

func (x *Exec) callMods(fn *ssa.Function, cc *ssa.CallCommon, ms *modset, depth int) {
	if cc.IsInvoke() {
		key := ifaceKey(cc, x.pkg.Pkg)
		if c := x.specs.Contracts[key]; c != nil {
			x.contractMods(c, ms)
			return
		}
		ms.all = true
		return
	}
	switch callee := cc.Value.(type) {
	case *ssa.Builtin:
		switch callee.Name() {
		case "append", "copy":
			ms.elems = true
		case "delete":
			ms.maps = true
		}
		return
	case *ssa.Function:
		x.funcMods(callee, ms, depth)
		return
	case *ssa.MakeClosure:
		x.funcMods(callee.Fn.(*ssa.Function), ms, depth)
		return
	}
	// dynamic call: callback contract by signature
	if c := x.callbackContract(cc.Value.Type()); c != nil {
		x.contractMods(c, ms)
		return
	}
	ms.all = true
}

func (x *Exec) funcMods(callee *ssa.Function, ms *modset, depth int) {
	key := funcKey(callee, x.pkg.Pkg)
	if c := x.specs.Contracts[key]; c != nil {
		x.contractMods(c, ms)
		return
	}
	if o := callee.Origin(); o != nil {
		callee = o
	}
	if len(callee.Blocks) == 0 || depth > 4 || (callee.Pkg != nil && callee.Pkg != x.pkg) {
		if callee.Pkg == nil || callee.Pkg == x.pkg {
			ms.all = true
		}
		return // external without contract: treated as effect-free on the modelled heap (listed as abstracted when executed)
	}
	for _, b := range callee.Blocks {
		for _, in := range b.Instrs {
			if st, ok := in.(*ssa.Store); ok {
				// stores to the callee's own locals do not matter
				if al, ok := rootAlloc(st.Addr); ok && !al.Heap {
					continue
				}
			}
			x.instrMods(callee, in, ms, depth+1)
		}
	}
}

func rootAlloc(v ssa.Value) (*ssa.Alloc, bool) {
	for {
		switch r := v.(type) {
		case *ssa.FieldAddr:
			v = r.X
		case *ssa.IndexAddr:
			v = r.X
		case *ssa.Alloc:
			return r, true
		default:
			return nil, false
		}
	}
}

func (x *Exec) contractMods(c *Contract, ms *modset) {
	if !c.HasMod && !c.Pure {
		if c.Dep {
			return
		}
		// in-package contract without modifies clause: modifies nothing
		return
	}
	for _, l := range c.Modifies {
		switch {
		case l == "heap":
			ms.heapAll = true
		case l == "*":
			ms.all = true
		case strings.HasPrefix(l, "stream("):
			ms.heapAll = true
		case strings.HasPrefix(l, "elems("):
			ms.elems = true
		case strings.HasPrefix(l, "map("):
			ms.maps = true
		default:
			if _, ok := x.ghostSort(l); ok {
				ms.ghosts[l] = true
				continue
			}
			if i := strings.Index(l, "["); i >= 0 {
				if _, ok := x.ghostSort(l[:i]); ok {
					ms.ghosts[l[:i]] = true
					continue
				}
			}
			// x.f.g -> key needs the static type: resolved lazily by name suffix: record ".f" wildcard
			ms.keys["?"+l] = true
		}
	}
}

var anyWord = regexp.MustCompile(`\bany\b`)

// boxKey names the heap component holding boxed variables of type t; the alias `any` and `interface{}` are one type.
func boxKey(t types.Type) string {
	return "box." + sanitize(anyWord.ReplaceAllString(t.String(), "interface{}"))
}

// mentionedGlobals: names of the package-level variables of fn's own package that fn or a function literal inside it
// mentions, sorted.
func mentionedGlobals(fn *ssa.Function) []string {
	seen := map[string]bool{}
	var walk func(f *ssa.Function)
	walk = func(f *ssa.Function) {
		for _, b := range f.Blocks {
			for _, in := range b.Instrs {
				for _, op := range in.Operands(nil) {
					if g, ok := (*op).(*ssa.Global); ok && fn.Pkg != nil && g.Pkg == fn.Pkg {
						seen[g.Name()] = true
					}
				}
			}
		}
		for _, a := range f.AnonFuncs {
			walk(a)
		}
	}
	walk(fn)
	var out []string
	for n := range seen {
		out = append(out, n)
	}
	sort.Strings(out)
	return out
}

// loopOwner names the contract a loop obligation belongs to: the contract under verification (scenario suffix
// included) for the function's own loops, the literal's name for loops of an inlined function literal.
func (x *Exec) loopOwner(st *State, fr *Frame) string {
	if len(st.frames) > 0 && st.frames[0] == fr && x.curFunc != "" {
		return x.curFunc
	}
	return funcKey(fr.fn, x.pkg.Pkg)
}

// obligeNoStore: one obligation per store instruction, in fn or a literal inside it, whose target is a field of one of
// the struct types the nostore clause names (goal false), plus one (goal true) so that the clause is never empty.
func (x *Exec) obligeNoStore(st *State, key string, c *Contract, fn *ssa.Function) {
	cl := c.NoStore
	banned := map[string]bool{}
	for _, n := range splitLocs(cl.Src) {
		banned[n] = true
	}
	x.oblige(st, key+"/nostore", "store-frame", cl.Tags, tTrue, fn.Pos(), "the function stores to no field of "+cl.Src)
	var walk func(f *ssa.Function)
	walk = func(f *ssa.Function) {
		for _, b := range f.Blocks {
			for _, in := range b.Instrs {
				stIn, ok := in.(*ssa.Store)
				if !ok {
					continue
				}
				fa, ok := stIn.Addr.(*ssa.FieldAddr)
				if !ok {
					continue
				}
				pt, ok := under(fa.X.Type()).(*types.Pointer)
				if !ok {
					continue
				}
				sn := structName(pt.Elem())
				if !banned[sn] {
					continue
				}
				su := under(pt.Elem()).(*types.Struct)
				name := fmt.Sprintf("%s/nostore:%s.%s@%s", key, sn, su.Field(fa.Field).Name(), posStr(x.fset, stIn.Pos()))
				x.oblige(st, name, "store-frame", cl.Tags, tFalse, stIn.Pos(), "the function stores to no field of "+cl.Src+" (store to "+sn+"."+su.Field(fa.Field).Name()+")")
			}
		}
		for _, a := range f.AnonFuncs {
			walk(a)
		}
	}
	walk(fn)
}
