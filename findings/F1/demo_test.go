package rapid

// Demonstration for finding F1 (obligation (*repeat).more/ensures: the outcome of more() must be a function of the
// recorded coin word and of the state a replay can see; on the pinned tree a forced stop (too many rejections)
// ignores the coin word, so a replay of the pruned recording - from which the rejected attempts are gone - may
// continue where the original run stopped). Records a run, prunes the recording, replays it through a buffer
// stream and compares the drawn values. Fails before the fix commit, passes after.

import (
	"fmt"
	"reflect"
	"testing"
)

func f1RunOnce(s bitStream, gen func(*T) any) (v any, err *testError) {
	t := newT(nil, s, false, nil)
	err = checkOnce(t, func(t *T) { v = gen(t) })
	return v, err
}

func TestF1PrunedReplayDiverges(t *testing.T) {
	gens := map[string]func(*T) any{
		"SliceOfDistinct(IntRange(0,2))": func(t *T) any { return SliceOfDistinct(IntRange(0, 2), ID[int]).Draw(t, "v") },
		"MapOf(Bool(),Int())":            func(t *T) any { return MapOf(Bool(), Int()).Draw(t, "v") },
		"StringN(-1,-1,3)":               func(t *T) any { return StringN(-1, -1, 3).Draw(t, "v") },
	}
	for name, gen := range gens {
		diverged, first := 0, ""
		for seed := uint64(1); seed <= 3000; seed++ {
			rs := newRandomBitStream(seed, true)
			v1, err1 := f1RunOnce(rs, gen)
			if err1 != nil {
				continue
			}
			rec := rs.recordedBits
			rec.prune()
			v2, err2 := f1RunOnce(newBufBitStream(rec.data, false), gen)
			if err2 != nil || !reflect.DeepEqual(v1, v2) {
				diverged++
				if first == "" {
					first = fmt.Sprintf("seed %d: run %v, replay of pruned recording %v (%v)", seed, v1, v2, err2)
				}
			}
		}
		if diverged > 0 {
			t.Errorf("%s: %d of 3000 pruned recordings do not replay to the same value; first: %s", name, diverged, first)
		}
	}
}
