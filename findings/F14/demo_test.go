package rapid

import "testing"

// F14: a failure (non-skip panic) inside a Custom generator function must not be turned into a skip by a
// cleanup callback of the generator's inner T that calls Skip.
func TestF14CustomFailureNotHiddenByCleanupSkip(t *testing.T) {
	gen := Custom(func(t *T) int {
		t.Cleanup(func() { t.Skip("cleanup skips") })
		panic("generator function failed")
	})
	s := newRandomBitStream(1, true)
	err := checkOnce(newT(t, s, false, nil), func(t *T) { gen.Draw(t, "x") })
	if err == nil || err.isInvalidData() {
		t.Fatalf("failure inside Custom generator function was hidden: %v", err)
	}
}
