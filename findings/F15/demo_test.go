package rapid

import (
	"strings"
	"testing"
)

// A state machine in which no action is able to run - each one draws and then skips - must be reported as stuck
// (C08: "if no action is able to run, Repeat reports a failure instead of looping forever"), not pass silently.
func TestF15StuckMachineWhoseActionsDrawBeforeSkipping(t *testing.T) {
	for seed := uint64(1); seed <= 20; seed++ {
		calls := 0
		err := checkOnce(newT(t, newRandomBitStream(seed, true), false, nil), func(t *T) {
			t.Repeat(map[string]func(*T){
				"a": func(t *T) { calls++; Int().Draw(t, "x"); t.Skip() },
				"b": func(t *T) { calls++; Bool().Draw(t, "y"); t.SkipNow() },
			})
		})
		if calls > 0 && (err == nil || err.isInvalidData() || !strings.Contains(err.Error(), "can't find a valid")) {
			t.Fatalf("seed %d: stuck machine (%d action calls, none completed) not reported: %v", seed, calls, err)
		}
	}
}
