package rapid

// Demonstration for finding F2 (obligation (*customGen).maybeValue/ensures#0: inner T has no recorded failure
// when the generator function returns): a non-fatal failure signalled on the *T given to a Custom generator
// function is dropped. Fails before the fix commit, passes after. Run in /repo as an in-package test.

import "testing"

type f2TB struct {
	testing.TB
	failed bool
}

func (d *f2TB) Helper()               {}
func (d *f2TB) Name() string          { return "demo" }
func (d *f2TB) Logf(string, ...any)   {}
func (d *f2TB) Log(...any)            {}
func (d *f2TB) Errorf(string, ...any) { d.failed = true }
func (d *f2TB) Failed() bool          { return d.failed }
func (d *f2TB) FailNow()              { panic("failnow") }

func runF2(prop func(*T)) *f2TB {
	d := &f2TB{}
	func() {
		defer func() { recover() }()
		old := flags.nofailfile
		flags.nofailfile = true
		defer func() { flags.nofailfile = old }()
		checkTB(d, checkDeadline(nil), prop)
	}()
	return d
}

func TestF2ErrorfInCustom(t *testing.T) {
	g := Custom(func(rt *T) int {
		v := IntRange(0, 10).Draw(rt, "v")
		rt.Errorf("boom inside Custom")
		return v
	})
	if d := runF2(func(rt *T) { g.Draw(rt, "g") }); !d.failed {
		t.Errorf("Errorf inside a Custom generator function: Check passed")
	}
}

func TestF2ErrorfThenSkipInCustom(t *testing.T) {
	g := Custom(func(rt *T) int {
		v := IntRange(0, 10).Draw(rt, "v")
		if v > 5 {
			rt.Errorf("boom inside Custom")
			rt.Skip("and skip")
		}
		return v
	})
	if d := runF2(func(rt *T) { g.Draw(rt, "g") }); !d.failed {
		t.Errorf("Errorf followed by Skip inside a Custom generator function: Check passed")
	}
}
