package rapid

// Demonstration for finding F9 (obligation runAction/ensures#0.0: no failure is pending when runAction returns):
// a Repeat action that signals a non-fatal failure and then skips is swallowed as "not applicable", and further
// actions (and invariant checks) run after the falsification. Fails before the fix commit, passes after.

import "testing"

func TestF9NoActionAfterErrorfThenSkip(t *testing.T) {
	var events []string
	bad := false
	d := &f9TB{}
	func() {
		defer func() { recover() }()
		old := flags.nofailfile
		flags.nofailfile = true
		defer func() { flags.nofailfile = old }()
		checkTB(d, checkDeadline(nil), func(rt *T) {
			events, bad = nil, false
			rt.Repeat(map[string]func(*T){
				"": func(*T) {
					if bad {
						events = append(events, "check-after-falsification")
					}
				},
				"bad": func(at *T) {
					if bad {
						events = append(events, "action-after-falsification")
						return
					}
					bad = true
					at.Errorf("boom")
					at.Skip("and skip")
				},
				"other": func(at *T) {
					if bad {
						events = append(events, "action-after-falsification")
					}
				},
			})
		})
	}()
	if !d.failed {
		t.Errorf("Errorf followed by Skip inside an action: Check passed")
	}
	if len(events) > 0 {
		t.Errorf("user code ran after the test case was falsified: %v", events)
	}
}

type f9TB struct {
	testing.TB
	failed bool
}

func (d *f9TB) Helper()               {}
func (d *f9TB) Name() string          { return "demo" }
func (d *f9TB) Logf(string, ...any)   {}
func (d *f9TB) Log(...any)            {}
func (d *f9TB) Errorf(string, ...any) { d.failed = true }
func (d *f9TB) Failed() bool          { return d.failed }
func (d *f9TB) FailNow()              { panic("failnow") }
