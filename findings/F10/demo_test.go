// F10 (C02): a raw panic in the property followed by a skip raised from a cleanup callback is counted as an
// invalid (skipped) test case: the falsification is lost and Check passes.
// Obligation: checkOnce/ensures "propFalsified && cleanupSkipped ==> result is a failure".
// Run: copy into a scratch worktree of /repo as zz_f10_test.go; go test -vet=off -run TestF10 .
package rapid

import "testing"

func TestF10PanicThenSkipInCleanup(t *testing.T) {
	prop := func(t *T) {
		t.Cleanup(func() { t.Skip("cleanup gives up") })
		panic("the property is falsified")
	}
	err := checkOnce(newT(nilTB{}, newRandomBitStream(1, false), false, nil), prop)
	if err == nil || err.isInvalidData() {
		t.Fatalf("a panicking test case was not reported as a failure: err = %v", err)
	}
}

func TestF10CheckPasses(t *testing.T) {
	rec := &f10TB{TB: t}
	checkTB(rec, checkDeadline(nil), func(t *T) {
		x := Int().Draw(t, "x")
		t.Cleanup(func() {
			if x%4 == 0 {
				t.Skip("cleanup gives up")
			}
		})
		if x%4 == 0 {
			panic("the property is falsified")
		}
	})
	if !rec.failed {
		t.Fatalf("Check passed although a quarter of the test cases panicked")
	}
}

type f10TB struct {
	testing.TB
	failed bool
}

func (r *f10TB) Errorf(format string, args ...any) { r.failed = true }
func (r *f10TB) Error(args ...any)                 { r.failed = true }
func (r *f10TB) Fatalf(format string, args ...any) { r.failed = true }
func (r *f10TB) Fatal(args ...any)                 { r.failed = true }
func (r *f10TB) FailNow()                          { r.failed = true }
func (r *f10TB) Fail()                             { r.failed = true }
func (r *f10TB) Failed() bool                      { return r.failed }
func (r *f10TB) Logf(string, ...any)               {}
func (r *f10TB) Log(...any)                        {}
func (r *f10TB) Helper()                           {}
