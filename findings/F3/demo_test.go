package rapid

// Demonstration for finding F3 (obligations checkOnce/ensures#1 and checkOnce/ensures#2):
// a non-fatal failure followed by a skip, or raised from a cleanup callback, leaves T.failed set after
// checkOnce has returned "passed"/"invalid". On the pinned tree the failure is lost when it happens in the last
// test case and is blamed on the following (passing) test case otherwise ("flaky test").
// Fails on the pinned tree, passes after the fix commit. Run in /repo as an in-package test.

import (
	"strings"
	"testing"
)

type f3TB struct {
	testing.TB
	failed bool
	msgs   []string
}

func (d *f3TB) Helper()             {}
func (d *f3TB) Name() string        { return "demo" }
func (d *f3TB) Logf(string, ...any) {}
func (d *f3TB) Log(...any)          {}
func (d *f3TB) Errorf(f string, a ...any) {
	d.failed = true
	d.msgs = append(d.msgs, f)
}
func (d *f3TB) Failed() bool { return d.failed }
func (d *f3TB) FailNow()     { panic("failnow") }

func runF3(prop func(*T)) *f3TB {
	d := &f3TB{}
	func() {
		defer func() { recover() }()
		old := flags.nofailfile
		flags.nofailfile = true
		defer func() { flags.nofailfile = old }()
		checkTB(d, checkDeadline(nil), prop)
	}()
	return d
}

func TestF3ErrorfInCleanupOfLastCaseIsLost(t *testing.T) {
	n := 0
	d := runF3(func(rt *T) {
		n++
		if n == flags.checks { // the last test case signals a failure from a cleanup callback
			rt.Cleanup(func() { rt.Errorf("boom in cleanup") })
		}
	})
	if !d.failed {
		t.Errorf("Errorf in a cleanup callback of the last test case: Check passed")
	}
}

// The two properties below are deterministic functions of their draws.

func TestF3ErrorfThenSkipBlamedOnNextCase(t *testing.T) {
	d := runF3(func(rt *T) {
		x := Uint64().Draw(rt, "x")
		if x%3 == 0 {
			rt.Errorf("boom")
			rt.Skip("skip after failure")
		}
	})
	if !d.failed {
		t.Errorf("Errorf followed by Skip: Check passed")
	}
	for _, m := range d.msgs {
		if strings.Contains(m, "flaky") {
			t.Errorf("Errorf followed by Skip was attributed to another (passing) test case: %q", m)
		}
	}
}

func TestF3ErrorfInCleanupBlamedOnNextCase(t *testing.T) {
	d := runF3(func(rt *T) {
		x := Uint64().Draw(rt, "x")
		if x%3 == 0 {
			rt.Cleanup(func() { rt.Errorf("boom in cleanup") })
		}
	})
	if !d.failed {
		t.Errorf("Errorf in a cleanup callback: Check passed")
	}
	for _, m := range d.msgs {
		if strings.Contains(m, "flaky") {
			t.Errorf("Errorf in a cleanup callback was attributed to another (passing) test case: %q", m)
		}
	}
}
