package rapid

import (
	"fmt"
	"os"
	"path/filepath"
	"strings"
	"testing"
)

type f16TB struct {
	*testing.T
	logs []string
}

func (tb *f16TB) Logf(format string, args ...any) { tb.logs = append(tb.logs, fmt.Sprintf(format, args...)) }

// F16: a fail file describing a test case that now passes is ignored with a log line (C17), like every other unusable
// fail file - not silently.
func TestF16PassingFailFileIsIgnoredWithALogLine(t *testing.T) {
	dir := t.TempDir()
	file := filepath.Join(dir, "passing.fail")
	if err := saveFailFile(file, rapidVersion, []byte("output"), 1, []uint64{1, 2, 3}); err != nil {
		t.Fatal(err)
	}
	defer os.Remove(file)
	tb := &f16TB{T: t}
	buf, err1, err2 := checkFailFile(tb, file, func(t *T) { Uint64().Draw(t, "x") })
	if buf != nil || err1 != nil || err2 != nil {
		t.Fatalf("passing fail file not ignored: %v %v %v", buf, err1, err2)
	}
	for _, l := range tb.logs {
		if strings.Contains(l, "fail file") {
			return
		}
	}
	t.Fatalf("fail file of a now passing test case ignored without a log line; logs: %q", tb.logs)
}
