// F8 (C18, C12): values of full bit length other than the maximum were unreachable for spans whose bit length is
// 56 or 60..64 - e.g. no Uint64() value with the top bit set except MaxUint64, no Int64() value of magnitude
// >= 2^62 except the extremes: half of the uint64 domain was never generated (proved for every bit stream by the
// scenario genUintNBiased@hole, the obligation genUintNBiased@reachall/ensures#0 failed).
// Run: copy into a scratch worktree of /repo as zz_f8_test.go; go test -vet=off -run TestF8 .
package rapid

import (
	"math"
	"testing"
)

func TestF8FullWidthValuesReachable(t *testing.T) {
	top, big := 0, 0
	for seed := 0; seed < 300000; seed++ {
		s := newRandomBitStream(uint64(seed), false)
		u, _, _ := genUintNBiased(s, math.MaxUint64)
		if u>>63 == 1 && u != math.MaxUint64 {
			top++
		}
		s = newRandomBitStream(uint64(seed), false)
		v, _, _ := genUintNBiased(s, 1<<62-1) // bit length 62
		if v>>61 == 1 && v != 1<<62-1 {
			big++
		}
	}
	if top == 0 || big == 0 {
		t.Fatalf("full-width values other than the maximum never generated in 300000 draws: uint64 with top bit: %d, 62-bit span: %d", top, big)
	}
}
