// F13 (C02): a panic raised by one cleanup function is replaced by a skip raised by a cleanup function that runs
// after it (registered earlier): the test case is counted as invalid and the falsification is lost.
// Obligation: (*T).cleanup/panics "a cleanup function panicked with a non-skip value ==> the panic leaving cleanup is
// not a skip".
// Run: copy into a scratch worktree of /repo as zz_f13_test.go; go test -vet=off -run TestF13 .
package rapid

import "testing"

func TestF13CleanupPanicThenCleanupSkip(t *testing.T) {
	prop := func(t *T) {
		t.Cleanup(func() { t.Skip("an earlier-registered cleanup gives up") })
		t.Cleanup(func() { panic("resource leaked") })
	}
	err := checkOnce(newT(nilTB{}, newRandomBitStream(1, false), false, nil), prop)
	if err == nil || err.isInvalidData() {
		t.Fatalf("a test case whose cleanup panicked was not reported as a failure: err = %v", err)
	}
}
