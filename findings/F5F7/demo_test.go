package rapid_test

// Demonstration for findings F5 and F7 (C15): run with `go test -race`. A freshly built generator shared by
// concurrently running checks: (F7) Generator.value reads the cached description g.str while another goroutine's
// String() writes it inside strOnce.Do; (F5) Deferred's first-use assignment g.g = g.fn() races with a concurrent
// read. The race detector reports both before the fix commits and nothing after.

import (
	"sync"
	"testing"

	"pgregory.net/rapid"
)

func TestF7SharedGeneratorStringVsDraw(t *testing.T) {
	for round := 0; round < 200; round++ {
		g := rapid.SliceOfN(rapid.IntRange(0, 100), 0, 5)
		var wg sync.WaitGroup
		for k := 0; k < 4; k++ {
			wg.Add(1)
			go func(k int) {
				defer wg.Done()
				if k%2 == 0 {
					_ = g.String()
				} else {
					_ = g.Example(k)
				}
			}(k)
		}
		wg.Wait()
	}
}

func TestF5SharedDeferred(t *testing.T) {
	for round := 0; round < 200; round++ {
		g := rapid.Deferred(func() *rapid.Generator[int] { return rapid.IntRange(0, 100) })
		var wg sync.WaitGroup
		for k := 0; k < 4; k++ {
			wg.Add(1)
			go func(k int) {
				defer wg.Done()
				_ = g.Example(k)
			}(k)
		}
		wg.Wait()
	}
}
