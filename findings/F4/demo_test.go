package rapid

// Demonstration for finding F4 (obligation (*T).fail/ensures#0 and (*T).fail/panics: t.failed != "").
// Fails on the pinned tree, passes after the fix commit. Run in /repo as an in-package test.

import "testing"

type f4TB struct {
	testing.TB
	failed bool
}

func (d *f4TB) Helper()               {}
func (d *f4TB) Name() string          { return "demo" }
func (d *f4TB) Logf(string, ...any)   {}
func (d *f4TB) Log(...any)            {}
func (d *f4TB) Errorf(string, ...any) { d.failed = true }
func (d *f4TB) Failed() bool          { return d.failed }
func (d *f4TB) FailNow()              { panic("failnow") }

func TestF4EmptyMessage(t *testing.T) {
	for _, name := range []string{"Error()", "Errorf(\"\")"} {
		d := &f4TB{}
		func() {
			defer func() { recover() }()
			checkTB(d, checkDeadline(nil), func(rt *T) {
				if name == "Error()" {
					rt.Error()
				} else {
					rt.Errorf("")
				}
			})
		}()
		if !d.failed {
			t.Errorf("property signalling a non-fatal failure via %s was reported as passing", name)
		}
	}
}
