// F12 (C04, C01): an action of T.Repeat whose first Draw gives up (e.g. Filter exhaustion) is classified
// "skipped": its group is kept (endGroup(i, false)) while the filter's failed tries inside it are marked discard.
// prune() removes those tries, so the replay of the pruned recording re-runs the same action on bits that belong
// to what followed, and draws different values.
// Obligation: (*stateMachine).executeAction/at:t.s.endGroup#0 "a skipped action that consumed bits is discarded".
// Run: copy into a scratch worktree of /repo as zz_f12_test.go; go test -vet=off -run TestF12 .
package rapid

import (
	"fmt"
	"testing"
)

func f12Prop(log *[]string) func(*T) {
	return func(t *T) {
		t.Repeat(map[string]func(*T){
			"picky": func(t *T) {
				v := IntRange(0, 99).Filter(func(x int) bool { return x >= 90 }).Draw(t, "v")
				*log = append(*log, fmt.Sprintf("picky %d", v))
			},
			"plain": func(t *T) {
				v := IntRange(0, 1000).Draw(t, "w")
				*log = append(*log, fmt.Sprintf("plain %d", v))
			},
		})
	}
}

func TestF12SkippedActionPrunedReplay(t *testing.T) {
	diverged, shaped := 0, 0
	for seed := uint64(1); seed <= 300; seed++ {
		var log1, log2 []string
		s1 := newRandomBitStream(seed, true)
		err1 := checkOnce(newT(nilTB{}, s1, false, nil), f12Prop(&log1))
		if err1 != nil {
			continue
		}
		rec := s1.recordedBits
		n := len(rec.data)
		rec.prune()
		if len(rec.data) == n {
			continue // nothing was discarded
		}
		shaped++
		err2 := checkOnce(newT(nilTB{}, newBufBitStream(rec.data, false), false, nil), f12Prop(&log2))
		if err2 != nil || fmt.Sprint(log1) != fmt.Sprint(log2) {
			diverged++
			if diverged == 1 {
				t.Logf("seed %d: run   %v", seed, log1)
				t.Logf("seed %d: replay %v (err %v)", seed, log2, err2)
			}
		}
	}
	if diverged > 0 {
		t.Fatalf("%d of %d pruned recordings replay differently", diverged, shaped)
	}
}
