#!/bin/bash
# usage: run_seeded.sh <seed-name> <property>...   applies /verif/seeded/<seed-name>/patch.diff to /repo, runs the quick checks, reverts.
set -u
N=$1; shift
if [ -n "$(git -C /repo status --porcelain)" ]; then echo "/repo is not clean"; exit 2; fi
git -C /repo apply /verif/seeded/$N/patch.diff || { echo "patch does not apply"; exit 2; }
for P in "$@"; do
  echo "== seeded $N vs $P"
  GOWP_EVIDENCE=/var/tmp/gowp_seeded_evidence /verif/bin/gowp check -property $P -tier quick 2>&1 | grep -v "^KNOWN-FINDING" | tail -6
  echo "rc=${PIPESTATUS[0]}"
done
git -C /repo checkout -- . ; git -C /repo status --porcelain
