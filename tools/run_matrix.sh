#!/bin/bash
# usage: run_matrix.sh [seed ...]   -- runs every seeded change against the quick check of its own property (first 3 chars of the seed name)
cd /verif
SEEDS=${@:-$(ls seeded)}
for N in $SEEDS; do
  P=${N:0:3}
  if [ -n "$(git -C /repo status --porcelain)" ]; then echo "/repo not clean"; exit 2; fi
  git -C /repo apply /verif/seeded/$N/patch.diff || { echo "$N: patch does not apply"; continue; }
  OUT=$(GOWP_EVIDENCE=/var/tmp/gowp_seeded_evidence ./bin/gowp check -property $P -tier quick 2>&1); RC=$?
  git -C /repo checkout -- .
  V=$(echo "$OUT" | grep -c "^VIOLATION"); M=$(echo "$OUT" | grep -c "^MACHINERY")
  echo "$N vs $P: rc=$RC violations=$V machinery=$M :: $(echo "$OUT" | grep "^VIOLATION\|^MACHINERY" | head -2 | sed 's|/verif/out/||' | tr '\n' ' ' | cut -c1-200)"
done
