#!/bin/bash
# usage: run_matrix.sh [seed ...]   -- runs every seeded change against the quick check of its own property (first 3 chars
# of the seed name). The change is applied to $MATRIX_REPO (default /repo; any git worktree of /repo at the same commit
# works and keeps /repo itself untouched), checked with GOWP_REPO pointing there, and reverted.
cd /verif
R=${MATRIX_REPO:-/repo}
SEEDS=${@:-$(ls seeded | grep -v INDEX)}
for N in $SEEDS; do
  P=${N:0:3}
  if [ -n "$(git -C $R status --porcelain)" ]; then echo "$R not clean"; exit 2; fi
  git -C $R apply /verif/seeded/$N/patch.diff || { echo "$N: patch does not apply"; continue; }
  OUT=$(GOWP_REPO=$R GOWP_EVIDENCE=/var/tmp/gowp_seeded_evidence ./bin/gowp check -property $P -tier quick 2>&1); RC=$?
  git -C $R checkout -- .
  V=$(echo "$OUT" | grep -c "^VIOLATION"); M=$(echo "$OUT" | grep -c "^MACHINERY")
  echo "$N vs $P: rc=$RC violations=$V machinery=$M :: $(echo "$OUT" | grep "^VIOLATION\|^MACHINERY" | sort -r | head -2 | sed 's|/verif/out/||' | tr '\n' ' ' | cut -c1-200)"
done
