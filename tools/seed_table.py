#!/usr/bin/env python3
# usage: seed_table.py <matrix output file>...   -> markdown table rows: seed | change | caught by
import json, re, sys
idx = json.load(open('/verif/seeded/INDEX.json'))
res = {}
for f in sys.argv[1:]:
    for l in open(f):
        m = re.match(r'^(\S+) vs (\S+): rc=(\d+) violations=(\d+) machinery=(\d+) ::\s*(.*)$', l.strip())
        if not m:
            continue
        seed, prop, rc, v, mach, rest = m.groups()
        obl = re.findall(r'replay=\S*?/([^/\s]+)\.replay', rest)
        if obl:
            caught = '`' + '`, `'.join(obl[:2]) + '`'
        elif int(mach) > 0:
            mm = re.search(r'MACHINERY: (.*)', rest)
            caught = 'exit 2 (cannot bind): ' + (mm.group(1)[:90] if mm else '')
        elif rc == '0':
            caught = '**not caught**'
        else:
            caught = 'exit ' + rc
        res[seed] = (prop, caught)
def key(s):
    m = re.match(r'C(\d+)(?:-r(\d+))?', s)
    return (int(m.group(2) or 1), int(m.group(1)))
for s in sorted(res, key=key):
    print('| %s | %s | %s %s |' % (s, idx.get(s, ''), res[s][0], res[s][1]))
