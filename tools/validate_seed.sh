#!/bin/bash
# usage: validate_seed.sh <Cxx> [srcdir]   -- validates a seeded change and stores it under /verif/seeded/<Cxx>[-n]/
# srcdir defaults to /tmp/seed/<Cxx>/_seed ; needs patch.diff and demo_test.go there.
set -u
export GOFLAGS=-mod=mod GOPROXY=off GOSUMDB=off GOTOOLCHAIN=local
ID=$1; SRC=${2:-/tmp/seed/$ID/_seed}; NAME=${3:-$ID}
WT=$(mktemp -d /var/tmp/val-$ID.XXXX); rmdir $WT
git -C /repo worktree add -q --detach $WT HEAD || exit 2
cleanup(){ git -C /repo worktree remove --force $WT 2>/dev/null; rm -rf $WT; }
trap cleanup EXIT
cd $WT
DEMO=$(ls $SRC/*_test.go | head -1)
TESTS=$(grep -o '^func Test[A-Za-z0-9_]*' $DEMO | sed 's/func //' | paste -sd'|')
cp $DEMO zz_demo_test.go
go test -vet=off -count=1 -run "^($TESTS)\$" . > /tmp/val_$ID.clean.log 2>&1; RC_CLEAN=$?
rm zz_demo_test.go
git apply $SRC/patch.diff || { echo "PATCH DOES NOT APPLY"; exit 2; }
SUITE=ok
for i in 1 2 3; do go test -vet=off -count=1 ./... > /tmp/val_$ID.suite.log 2>&1 || SUITE=FAIL; done
cp $DEMO zz_demo_test.go
go test -vet=off -count=1 -run "^($TESTS)\$" . > /tmp/val_$ID.mut.log 2>&1; RC_MUT=$?
rm zz_demo_test.go
echo "$ID: demo on clean rc=$RC_CLEAN (want 0); suite with patch x3: $SUITE (want ok); demo with patch rc=$RC_MUT (want !=0)"
if [ $RC_CLEAN -eq 0 ] && [ "$SUITE" = ok ] && [ $RC_MUT -ne 0 ]; then
  D=/verif/seeded/$NAME; mkdir -p $D
  cp $SRC/patch.diff $D/patch.diff; cp $DEMO $D/demo_test.go; [ -f $SRC/notes.md ] && cp $SRC/notes.md $D/notes.md
  python3 - "$ID" "$D" "$TESTS" <<'PY'
import json,sys,subprocess
id,d,tests=sys.argv[1:4]
notes=open(d+'/notes.md').read() if __import__('os').path.exists(d+'/notes.md') else ''
base=subprocess.run(['git','-C','/repo','rev-parse','HEAD'],capture_output=True,text=True).stdout.strip()
meta={"property":id,"breaks":"see notes.md","needs_to_manifest":"see notes.md","validated_against_repo_commit":base,
 "ran":["demo (%s) on unchanged worktree: pass"%tests,"go test -vet=off -count=1 ./... with patch, 3 runs: pass","demo with patch: FAIL"],
 "demo_tests":tests,"detected_by":"(filled in by tools/run_seeded.sh)"}
json.dump(meta,open(d+'/meta.json','w'),indent=1)
PY
  echo "KEPT in $D"
else
  echo "REJECTED"; tail -5 /tmp/val_$ID.clean.log /tmp/val_$ID.suite.log /tmp/val_$ID.mut.log
fi
