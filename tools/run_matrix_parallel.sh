#!/bin/bash
# usage: run_matrix_parallel.sh <shards> [seed ...]  -- like run_matrix.sh, but on <shards> scratch worktrees of /repo in parallel
# (worktrees under /var/tmp/matrix-shard-N, removed afterwards); output lines go to stdout in completion order.
cd /verif
N=$1; shift
SEEDS=(${@:-$(ls seeded | grep -v INDEX)})
HEAD=$(git -C /repo rev-parse HEAD)
for i in $(seq 1 $N); do
  W=/var/tmp/matrix-shard-$i
  git -C /repo worktree remove --force $W 2>/dev/null
  git -C /repo worktree add -q --detach $W $HEAD || exit 2
done
for i in $(seq 1 $N); do
  (
    MINE=()
    for k in "${!SEEDS[@]}"; do if [ $((k % N + 1)) -eq $i ]; then MINE+=("${SEEDS[$k]}"); fi; done
    [ ${#MINE[@]} -gt 0 ] && MATRIX_REPO=/var/tmp/matrix-shard-$i tools/run_matrix.sh "${MINE[@]}"
  ) &
done
wait
for i in $(seq 1 $N); do git -C /repo worktree remove --force /var/tmp/matrix-shard-$i 2>/dev/null; done
