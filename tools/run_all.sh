#!/bin/bash
# runs the quick check of every claimed property on the current /repo tree; prints one line each
cd /verif
for P in $(python3 -c "import json;print(' '.join(c['property_id'] for c in json.load(open('MANIFEST.json'))['checks']))"); do
  OUT=$(./bin/gowp check -property $P -tier ${1:-quick} 2>&1); RC=$?
  echo "rc=$RC $(echo "$OUT" | tail -1)"
  if [ $RC -ne 0 ]; then echo "$OUT" | grep "^VIOLATION\|^MACHINERY" | head -5; fi
done
